(* Correspondence driver: evaluates the extracted Coq models (and specs) on the cases the Go
   harness recorded from the implementation, and reports every difference. *)
open Cnv
open Absparse
module L = Stdlib.List
module S = Stdlib.String

(* each handler: args (string list) -> impl output -> (model output, spec verdict option) *)
type verdict = { model : string; spec_ok : bool option; nontrivial : bool }

let ev_str (e : int Lcs.event) = match e with
  | Lcs.Remove i -> "r" ^ string_of_int (int_of_z i)
  | Lcs.Add (i, v) -> "a" ^ string_of_int (int_of_z i) ^ ":" ^ string_of_int v
let parse_ev (s : string) : int Lcs.event =
  if (S.get s (0)) = 'r' then Lcs.Remove (z_of_int (int_of_string (S.sub s 1 (S.length s - 1))))
  else match S.split_on_char ':' (S.sub s 1 (S.length s - 1)) with
    | [i; v] -> Lcs.Add (z_of_int (int_of_string i), int_of_string v)
    | _ -> failwith "ev"

(* value classes: the Go side maps int k to a codec.Value whose Equal-class is k; two ints denote
   Equal values iff they are the same int *)
let veq (a : int) (b : int) = a = b

let handlers : (string * (string list -> string -> verdict)) list = [
  "can_call", (fun args impl -> match args with
    | [call; act] ->
      let call = chars_of_string (unhex call) and act = chars_of_string (unhex act) in
      let m = CanCall.can_call call act in
      (* spec: call = "*" or (call <> "" and act is an exact entry) *)
      let ents = L.map string_of_chars (CanCall.entries call) in
      let spec = (call = ['*']) || (call <> [] && L.mem (string_of_chars act) ents) in
      { model = bool_s m; spec_ok = Some (impl = bool_s spec); nontrivial = L.length ents > 1 }
    | _ -> failwith "args");
  "value_dec", (fun args impl -> match args with
    | [top; ms; whole] ->
      let parse_m (i : int) (m : string) : ValueDec.member * string =
        (match S.split_on_char ':' m with
         | [k; kind; str; raw] ->
           let v = (match kind with
             | "n" -> ValueDec.JNull | "s" -> ValueDec.JStr (chars_of_string (unhex str))
             | "t" -> ValueDec.JBool true | "f" -> ValueDec.JBool false | "d" -> ValueDec.JNum
             | "o" -> ValueDec.JObj | "a" -> ValueDec.JArr | _ -> failwith "kind") in
           (((chars_of_string (unhex k), v), nat_of_int i), raw)
         | _ -> failwith "member") in
      let pm = L.mapi parse_m (if ms = "" then [] else S.split_on_char ',' ms) in
      let raw_of id = snd (L.nth pm (int_of_nat id)) in
      let t = (match top with "O" -> ValueDec.TObj (L.map fst pm) | "A" -> ValueDec.TArr | _ -> ValueDec.TOther) in
      let hx l = hex (string_of_chars l) in
      let m = (match ValueDec.decode t with
        | ValueDec.OPrimTop -> "prim||" ^ whole ^ "|"
        | ValueDec.OPrimData id -> "prim||" ^ raw_of id ^ "|" ^ raw_of id
        | ValueDec.OData id -> "data||" ^ whole ^ "|" ^ raw_of id
        | ValueDec.ORef r -> "ref|" ^ hx r ^ "|" ^ whole ^ "|"
        | ValueDec.OSoft r -> "soft|" ^ hx r ^ "|" ^ whole ^ "|"
        | ValueDec.ODelete -> "delete||" ^ whole ^ "|"
        | ValueDec.OErr e -> "E:" ^ (match e with
            | ValueDec.EJson -> "json" | ValueDec.EEmptyRid -> "emptyrid" | ValueDec.EAmbiguous -> "ambiguous"
            | ValueDec.EInvalidRid -> "invalidrid" | ValueDec.EUnknownAction -> "unknownaction"
            | ValueDec.EObjectNotAllowed -> "objectnotallowed" | ValueDec.EArrayNotAllowed -> "arraynotallowed")) in
      (* spec on the implementation's own answer (C15_value_accepted_has_one_marker, C15_value_reference_sound): an
         accepted object was read without type error and names exactly one of rid / action / data; a reference's
         rid is the one read, non-empty and valid *)
      let pre k = S.length impl >= S.length k && S.sub impl 0 (S.length k) = k in
      let spec = (match t with
        | ValueDec.TObj ms ->
          let f = ValueDec.read ms in
          if pre "E:" then true
          else (not f.ValueDec.f_err) && int_of_nat (ValueDec.markers f) = 1
               && (if pre "ref|" || pre "soft|" then
                     (match f.ValueDec.f_rid with
                      | Some r -> r <> [] && Rid.is_valid_rid r true && f.ValueDec.f_soft = pre "soft|"
                                  && (match S.split_on_char '|' impl with _ :: x :: _ -> x = hx r | _ -> false)
                      | None -> false)
                   else f.ValueDec.f_rid = None)
        | ValueDec.TArr -> pre "E:"
        | ValueDec.TOther -> pre "prim|") in
      { model = m; spec_ok = Some spec; nontrivial = L.length pm > 1 }
    | _ -> failwith "args");
  "get_dec", (fun args impl -> match args with
    | [syn; err; res; _payload] ->
      let vals (t : string) : ValueDec.outcome list =
        L.init (S.length t - 1) (fun i -> match S.get t (i + 1) with
          | 'p' -> ValueDec.OPrimTop | 'r' -> ValueDec.ORef ['a'] | 's' -> ValueDec.OSoft ['a']
          | 'd' -> ValueDec.OData Datatypes.O | 'D' -> ValueDec.ODelete | _ -> ValueDec.OErr ValueDec.EAmbiguous) in
      let part t = if t = "-" then None else Some (vals t) in
      let result = if res = "-" then None else (match S.split_on_char ';' res with
        | [m; c] -> Some { RespDec.g_model = part m; RespDec.g_coll = part c }
        | _ -> failwith "res") in
      let p = { RespDec.gp_syntax_ok = (syn = "1");
                RespDec.gp_error = (if err = "-" then None else Some (nat_of_int (int_of_string err)));
                RespDec.gp_result = result } in
      let m = (match RespDec.decode_get p with
        | RespDec.GModel n -> "model:" ^ string_of_int (int_of_nat n)
        | RespDec.GColl n -> "coll:" ^ string_of_int (int_of_nat n)
        | RespDec.GService e -> "svc:" ^ string_of_int (int_of_nat e)
        | RespDec.GJson -> "json" | RespDec.GMissingResult -> "missing" | RespDec.GInvalid -> "invalid") in
      (* spec on the implementation's own answer (the statements of C15_get_response_*_sound / _complete) *)
      let proper_all l = L.for_all RespDec.proper l in
      let pre k = S.length impl > S.length k && S.sub impl 0 (S.length k) = k in
      let num k = int_of_string (S.sub impl (S.length k) (S.length impl - S.length k)) in
      let clean = p.RespDec.gp_syntax_ok && p.RespDec.gp_error = None in
      let spec = (match result with
        | Some { RespDec.g_model = Some ml; RespDec.g_coll = None } when clean && proper_all ml -> impl = "model:" ^ string_of_int (L.length ml)
        | Some { RespDec.g_model = None; RespDec.g_coll = Some cl } when clean && proper_all cl -> impl = "coll:" ^ string_of_int (L.length cl)
        | _ -> not (pre "model:" || pre "coll:")) in
      ignore num;
      { model = m; spec_ok = Some spec; nontrivial = res <> "-" }
    | _ -> failwith "args");
  "call_dec", (fun args impl -> match args with
    | [syn; err; rid; raw; _payload] ->
      let tail s = S.sub s 1 (S.length s - 1) in
      let p = { RespDec.cp_syntax_ok = (syn = "1");
                RespDec.cp_error = (if err = "-" then None else Some (nat_of_int (int_of_string err)));
                RespDec.cp_resource = (if rid = "-" then None else Some (chars_of_string (unhex (tail rid))));
                RespDec.cp_result = (if raw = "-" then None else Some Datatypes.O) } in
      let m = (match RespDec.decode_call p with
        | RespDec.CResult _ -> "res:" ^ tail raw
        | RespDec.CResource r -> "rid:" ^ hex (string_of_chars r)
        | RespDec.CService e -> "svc:" ^ string_of_int (int_of_nat e)
        | RespDec.CJson -> "json" | RespDec.CMissingResult -> "missing" | RespDec.CInvalid -> "invalid") in
      (* spec on the implementation's own answer (C15_call_response_resource_sound / _result_sound) *)
      let pre k = S.length impl >= S.length k && S.sub impl 0 (S.length k) = k in
      let clean = p.RespDec.cp_syntax_ok && p.RespDec.cp_error = None in
      let spec =
        (if pre "rid:" then clean && (match p.RespDec.cp_resource with
            | Some r -> impl = "rid:" ^ hex (string_of_chars r) && Rid.is_valid_rid r true | None -> false)
         else if pre "res:" then clean && p.RespDec.cp_resource = None && raw <> "-" && impl = "res:" ^ tail raw
         else true) in
      { model = m; spec_ok = Some spec; nontrivial = rid <> "-" || raw <> "-" }
    | _ -> failwith "args");
  "valid_rid", (fun args impl -> match args with
    | [rid; aq] ->
      let m = Rid.is_valid_rid (chars_of_string (unhex rid)) (aq = "1") in
      { model = bool_s m; spec_ok = None; nontrivial = m }
    | _ -> failwith "args");
  "lcs", (fun args impl -> match args with
    | [a; b] ->
      let a = ints_of a and b = ints_of b in
      let m = LcsTab.lcs_model veq a b in
      let ms = S.concat "," (L.map ev_str m) in
      (* spec on the implementation's own output: applying it to a yields b, all indices in range *)
      let ievs = L.map parse_ev (split_on ',' impl) in
      let spec = (match Lcs.apply_evs ievs a with Some b' -> b' = b | None -> false)
                 && (a <> b || ievs = []) in
      { model = ms; spec_ok = Some spec; nontrivial = m <> [] }
    | _ -> failwith "args");
  "ressub", (fun args impl -> match args with
    | [init; ops] ->
      let tail s = S.sub s 1 (S.length s - 1) in
      let c0 = if (S.get init (0)) = 'M' then ResSub.CModel (kv_of (tail init)) else ResSub.CColl (list_of (tail init)) in
      let op_of (o : string) : ResSub.op =
        let rest = S.sub o 2 (S.length o - 2) in
        match S.sub o 0 2 with
        | "ec" -> ResSub.OpEvent (ResSub.EChange (kv_of rest))
        | "eC" -> ResSub.OpEvent ResSub.EChangeBad
        | "ea" -> (match S.split_on_char ':' rest with
                   | [i; v] -> ResSub.OpEvent (ResSub.EAdd (z_of_int (int_of_string i), value_of v))
                   | _ -> failwith "ea")
        | "eA" -> ResSub.OpEvent ResSub.EAddBad
        | "er" -> ResSub.OpEvent (ResSub.ERemove (z_of_int (int_of_string rest)))
        | "eR" -> ResSub.OpEvent ResSub.ERemoveBad
        | "ed" -> ResSub.OpEvent ResSub.EDelete
        | "eu" -> ResSub.OpEvent (ResSub.ECustom (nat_of_int (int_of_string rest)))
        | "ex" -> ResSub.OpEvent ResSub.EReaccess
        | "rs" -> ResSub.OpResetStart
        | "rm" -> ResSub.OpResetAnswer (ResSub.RModel (kv_of rest))
        | "rc" -> ResSub.OpResetAnswer (ResSub.RColl (list_of rest))
        | "rn" -> ResSub.OpResetAnswer ResSub.RNotFound
        | "re" -> ResSub.OpResetAnswer ResSub.RError
        | _ -> failwith ("op " ^ o) in
      let ops = L.map op_of (split_on '|' ops) in
      let (r, outs) = ResSub.run (ResSub.init c0) ops in
      let n i = string_of_int (int_of_nat i) in
      let oev_s (o : ResSub.oev) = match o with
        | ResSub.OChange (v, ch) -> "C" ^ n v ^ "/" ^ kv_s ch
        | ResSub.OAdd (v, i, x) -> "A" ^ n v ^ "/" ^ string_of_int (int_of_z i) ^ "/" ^ value_s x
        | ResSub.ORemove (v, i, x) -> "R" ^ n v ^ "/" ^ string_of_int (int_of_z i) ^ "/" ^ value_s x
        | ResSub.ODelete v -> "D" ^ n v
        | ResSub.OCustom (v, u) -> "U" ^ n v ^ "/" ^ n u
        | ResSub.OReaccess v -> "X" ^ n v in
      let outs_s = S.concat "|" (L.map (fun o -> S.concat "+" (L.map oev_s o)) outs) in
      let st = match r.ResSub.cont with ResSub.CModel m -> "M" ^ kv_s m | ResSub.CColl l -> "L" ^ list_s l in
      let fin = Printf.sprintf "%s v%d s%d c%d e%d" st (int_of_nat r.ResSub.version) (int_of_nat r.ResSub.nsubs)
                  (int_of_z r.ResSub.count) (int_of_nat r.ResSub.errs) in
      { model = outs_s ^ " => " ^ fin; spec_ok = None; nontrivial = L.exists (fun o -> o <> []) outs }
    | _ -> failwith "args");
  "valid_part", (fun args impl -> match args with
    | [p] -> let m = RidPart.is_valid_part (chars_of_string (unhex p)) in
      { model = bool_s m; spec_ok = None; nontrivial = m }
    | _ -> failwith "args");
  "parse_rid", (fun args impl -> match args with
    | [s] -> let l = chars_of_string (unhex s) in
      let m = hex (string_of_chars (Rid.name_of l)) ^ ":" ^ hex (string_of_chars (RidPart.query_of l)) in
      { model = m; spec_ok = None; nontrivial = L.mem '?' l }
    | _ -> failwith "args");
  "dispatch", (fun args impl -> match args with
    | [m] ->
      let hx l = hex (string_of_chars l) in
      let r = match RidPart.dispatch_method (chars_of_string (unhex m)) with
        | RidPart.DVersion -> "V" | RidPart.DInvalid -> "I"
        | RidPart.DAction (a, rid, meth) -> "A:" ^ hx a ^ ":" ^ hx rid ^ ":" ^ hx meth in
      (* spec on the implementation's own answer: a forwarded rid/method is subject-clean *)
      let spec = (match S.split_on_char ':' impl with
        | ["A"; a; rid; meth] ->
          let rid = unhex rid and meth = unhex meth in
          let name = (match S.index_opt rid '?' with Some i -> S.sub rid 0 i | None -> rid) in
          let okc c = let n = Char.code c in n >= 33 && n <= 126 && c <> '*' && c <> '>' && c <> '?' in
          let toks = S.split_on_char '.' name in
          L.for_all (fun t -> t <> "" && S.for_all okc t) toks
          && (meth = "" || (S.for_all okc meth && not (S.contains meth '.')))
          && (unhex m = unhex a ^ "." ^ rid ^ (if meth = "" then "" else "." ^ meth))
        | _ -> true) in
      { model = r; spec_ok = Some spec; nontrivial = r <> "I" }
    | _ -> failwith "args");
  "pattern", (fun args impl -> match args with
    | [p; n] ->
      let p = chars_of_string (unhex p) and n = chars_of_string (unhex n) in
      let v = PatternParse.is_valid p in
      let m = PatternParse.match_model p n in
      { model = bool_s v ^ bool_s m; spec_ok = None; nontrivial = v }
    | _ -> failwith "args");
  "error_status", (fun args impl -> match args with
    | [c] ->
      let code = (match unhex c with
        | "system.accessDenied" -> Status.AccessDenied | "system.internalError" -> Status.InternalError
        | "system.invalidParams" -> Status.InvalidParams | "system.invalidQuery" -> Status.InvalidQuery
        | "system.methodNotFound" -> Status.MethodNotFound | "system.noSubscription" -> Status.NoSubscription
        | "system.notFound" -> Status.NotFound | "system.timeout" -> Status.Timeout
        | "system.invalidRequest" -> Status.InvalidRequest | "system.unsupportedProtocol" -> Status.UnsupportedProtocol
        | "system.subjectTooLong" -> Status.SubjectTooLong | "system.deleted" -> Status.Deleted
        | "system.badRequest" -> Status.BadRequest | "system.methodNotAllowed" -> Status.MethodNotAllowed
        | "system.serviceUnavailable" -> Status.ServiceUnavailable | "system.forbidden" -> Status.Forbidden
        | "system.notImplemented" -> Status.NotImplemented
        | "<plain-go-error>" -> Status.InternalError
        | _ -> Status.OtherCode) in
      { model = string_of_int (int_of_z (Status.error_status code)); spec_ok = None; nontrivial = true }
    | _ -> failwith "args");
  "status_error", (fun args impl -> match args with
    | [s] ->
      let c = Status.status_error (z_of_int (int_of_string s)) in
      let name = (match c with
        | Status.AccessDenied -> "system.accessDenied" | Status.InternalError -> "system.internalError"
        | Status.Forbidden -> "system.forbidden" | Status.NotFound -> "system.notFound"
        | Status.MethodNotAllowed -> "system.methodNotAllowed" | Status.Timeout -> "system.timeout"
        | Status.BadRequest -> "system.badRequest" | Status.NotImplemented -> "system.notImplemented"
        | Status.ServiceUnavailable -> "system.serviceUnavailable" | _ -> "?") in
      { model = name; spec_ok = None; nontrivial = true }
    | _ -> failwith "args");
  "meta_status", (fun args impl -> match args with
    | [s] ->
      let o = if s = "none" then None else Some (z_of_int (int_of_string s)) in
      { model = bool_s (Status.is_direct o) ^ bool_s (Status.is_valid_status o); spec_ok = None; nontrivial = true }
    | _ -> failwith "args");
  "origin", (fun args impl -> match args with
    | [os; o] ->
      let os = L.map (fun h -> chars_of_string (unhex h)) (S.split_on_char ',' os) in
      let o = chars_of_string (unhex o) in
      let m = Origin.matches_origins os o in
      (* spec: equal to a listed origin ignoring ASCII case (list entries are already lower-case) *)
      let lower s = S.map (fun c -> if c >= 'A' && c <= 'Z' then Char.chr (Char.code c + 32) else c) s in
      let spec = L.exists (fun s -> string_of_chars s = lower (string_of_chars o)) os in
      { model = bool_s m; spec_ok = Some (impl = bool_s spec); nontrivial = m }
    | _ -> failwith "args");
  "to_lower", (fun args impl -> match args with
    | [o] -> { model = hex (string_of_chars (Origin.to_lower (chars_of_string (unhex o)))); spec_ok = None; nontrivial = true }
    | _ -> failwith "args");
  "path_to_rid", (fun args impl -> match args with
    | [p; q; pre] ->
      let c x = chars_of_string (unhex x) in
      let m = HttpPath.path_to_rid (c p) (c q) (c pre) in
      { model = hex (string_of_chars m); spec_ok = None; nontrivial = m <> [] }
    | _ -> failwith "args");
  "path_to_rid_action", (fun args impl -> match args with
    | [p; q; pre] ->
      let c x = chars_of_string (unhex x) in
      let (r, a) = HttpPath.path_to_rid_action (c p) (c q) (c pre) in
      { model = hex (string_of_chars r) ^ ":" ^ hex (string_of_chars a); spec_ok = None; nontrivial = r <> [] }
    | _ -> failwith "args");
  "rid_to_path", (fun args impl -> match args with
    | [r; pre] ->
      let c x = chars_of_string (unhex x) in
      let m = HttpPath.rid_to_path (c r) (c pre) in
      { model = hex (string_of_chars m); spec_ok = None; nontrivial = m <> [] }
    | _ -> failwith "args");
  "header", (fun args impl -> match args with
    | [a; b] ->
      let ids = Hashtbl.create 16 and names = Hashtbl.create 16 in
      let idof v = (try Hashtbl.find ids v with Not_found ->
        let n = Hashtbl.length ids in Hashtbl.add ids v n; Hashtbl.add names n v; n) in
      let parse s = L.map (fun e -> match S.index_opt e '=' with
          | Some i -> let vs = S.split_on_char '|' (S.sub e (i+1) (S.length e - i - 1)) in
                      (chars_of_string (S.sub e 0 i), L.map (fun v -> nat_of_int (idof v)) vs, vs)
          | None -> failwith "hdr") (split_on ';' (unhex s)) in
      let pa = parse a in let pb = parse b in
      let strip l = L.map (fun (k, ns, _) -> (k, ns)) l in
      let r = Header.apply_meta (strip pa) (strip pb) in
      let render h =
        let h = L.map (fun (k, ns) ->
          let k = string_of_chars k in
          let vs = L.map (fun n -> Hashtbl.find names (int_of_nat n)) ns in
          let vs = if k = "Set-Cookie" then
              (let (bs, ms) = L.partition (fun v -> (S.get v (0)) = 'b') vs in bs @ L.sort compare ms)
            else if L.length vs > 1 then L.sort compare vs else vs in
          (k, vs)) h in
        let h = L.sort (fun (a, _) (b, _) -> compare a b) h in
        S.concat ";" (L.map (fun (k, vs) -> k ^ "=" ^ S.concat "|" vs) h) in
      let protected = ["Sec-Websocket-Extensions"; "Sec-Websocket-Protocol"; "Access-Control-Allow-Credentials"; "Access-Control-Allow-Origin"; "Content-Type"] in
      (* spec on the implementation's own output: protected names keep exactly the base value; Set-Cookie keeps base values first *)
      let out = L.map (fun e -> match S.index_opt e '=' with Some i -> (S.sub e 0 i, S.sub e (i+1) (S.length e - i - 1)) | None -> (e, "")) (split_on ';' (unhex impl)) in
      let base = L.map (fun (k, _, vs) -> (string_of_chars k, S.concat "|" vs)) pa in
      let spec = L.for_all (fun p -> L.assoc_opt p out = L.assoc_opt p base) protected
        && (match L.assoc_opt "Set-Cookie" base with
            | Some b -> (match L.assoc_opt "Set-Cookie" out with Some o -> S.length o >= S.length b && S.sub o 0 (S.length b) = b | None -> false)
            | None -> true) in
      { model = hex (render r); spec_ok = Some spec; nontrivial = pb <> [] }
    | _ -> failwith "args");
  "throttle", (fun args impl -> match args with
    | [limit; ops] ->
      let t0 = { Throttle.limit = nat_of_int (int_of_string limit); Throttle.running = Datatypes.O; Throttle.queue = [] } in
      let rec go t ops acc total = match ops with
        | [] -> (L.rev acc, total)
        | o :: rest ->
          let op = if o = "d" then Throttle.Done else Throttle.Add (nat_of_int (int_of_string (S.sub o 1 (S.length o - 1)))) in
          (match Throttle.step t op with
           | Throttle.Crash -> (L.rev ("CRASH" :: acc), total)
           | Throttle.Ok (t', ran) ->
             go t' rest (S.concat "+" (L.map (fun n -> string_of_int (int_of_nat n)) ran) :: acc) (total + L.length ran)) in
      let (outs, total) = go t0 (split_on ',' ops) [] 0 in
      (* spec on the implementation's own output (C19_throttle_exact / C19_throttle_bound): after every call within the
         contract the number of starters run so far is min(added, done + limit), and they ran in Add order *)
      let lim = int_of_string limit in
      let impl_outs = (match S.index_opt impl ' ' with Some i -> S.sub impl 0 i | None -> impl) in
      let spec =
        (try
          let outs_i = S.split_on_char ',' impl_outs in
          let ops_l = split_on ',' ops in
          if L.mem "CRASH" outs_i || L.length outs_i <> L.length ops_l then None else begin
            let added = ref [] and started = ref [] and ndone = ref 0 and ok = ref true and contract = ref true in
            L.iter2 (fun o out ->
              if !contract then begin
                (if o = "d" then (if !ndone >= L.length !started then contract := false else incr ndone)
                 else added := !added @ [S.sub o 1 (S.length o - 1)]);
                if !contract then begin
                  (if out <> "" then started := !started @ S.split_on_char '+' out);
                  let want = min (L.length !added) (!ndone + lim) in
                  if L.length !started <> want then ok := false;
                  let rec prefix a b = match a, b with [], _ -> true | x :: a', y :: b' -> x = y && prefix a' b' | _ -> false in
                  if not (prefix !started !added) then ok := false
                end
              end) ops_l outs_i;
            Some !ok end
        with _ -> None) in
      { model = S.concat "," outs ^ " total=" ^ string_of_int total; spec_ok = spec; nontrivial = L.length outs > 2 }
    | _ -> failwith "args");
  "can_get", (fun args impl -> match args with
    | [a] ->
      let acc = (match S.split_on_char ':' a with
        | ["err"; d] -> Access.AErr (d = "1")
        | ["res"; g; call] -> Access.AResult (g = "1", chars_of_string (unhex call))
        | _ -> failwith "can_get") in
      let m = (match Access.can_get acc with Access.Granted -> "granted" | Access.Refused e -> "refused:" ^ bool_s e) in
      { model = m; spec_ok = None; nontrivial = true }
    | _ -> failwith "args");
  "expand_cid", (fun args impl -> match args with
    | [rid; cid] ->
      let m = Access.expand (chars_of_string (unhex rid)) (chars_of_string (unhex cid)) in
      { model = hex (string_of_chars m); spec_ok = None; nontrivial = (unhex impl <> unhex rid) }
    | _ -> failwith "args");
  "render", (fun args impl -> match args with
    | [enc; nn; spec] ->
      let n = int_of_string nn in
      let nodes = Array.of_list (S.split_on_char '|' spec) in
      let value_of (v : string) : Render.hval =
        let rest = S.sub v 1 (S.length v - 1) in
        match S.get v 0 with
        | 'r' -> Render.HRef (nat_of_int (int_of_string rest))
        | 's' -> Render.HSoft (chars_of_string (unhex rest))
        | 'd' -> Render.HData (chars_of_string (unhex rest))
        | _ -> Render.HPrim (chars_of_string (unhex rest)) in
      let parsed = Array.map (fun nd -> match S.split_on_char ';' nd with
        | [h; "E"; e] -> (chars_of_string (unhex h), Render.HErr (chars_of_string (unhex e)))
        | [h; "M"; kvs] -> (chars_of_string (unhex h),
            Render.HModel (L.map (fun kv -> match S.index_opt kv '=' with
              | Some i -> (chars_of_string (unhex (S.sub kv 0 i)), value_of (S.sub kv (i+1) (S.length kv - i - 1)))
              | None -> failwith "kv") (split_on ',' kvs)))
        | [h; "C"; vs] -> (chars_of_string (unhex h), Render.HColl (L.map value_of (split_on ',' vs)))
        | _ -> failwith ("node " ^ nd)) nodes in
      let g = { Render.res = (fun r -> let i = int_of_nat r in if i < Array.length parsed then snd parsed.(i) else Render.HErr []);
                Render.href = (fun r -> let i = int_of_nat r in if i < Array.length parsed then fst parsed.(i) else []) } in
      let m = string_of_chars (if enc = "json" then Render.encode_get g (nat_of_int n) Datatypes.O
                               else Render.encode_get_flat g (nat_of_int n) Datatypes.O) in
      (* compare structurally (member order of objects is the Go map iteration order); the implementation's body must be
         well-formed JSON without duplicate members *)
      let ok, wf = (try
          let ji = Jsonc.parse (unhex impl) in
          let jm = Jsonc.parse m in
          (Jsonc.canon ji = Jsonc.canon jm, not (Jsonc.dup_keys ji))
        with _ -> (false, false)) in
      { model = (if ok then impl else hex m); spec_ok = Some wf; nontrivial = n > 1 }
    | _ -> failwith "args");
  "adapter", (fun args impl -> match args with
    | [b] ->
      let open Adapter in
      let acts = (match b with
        | "reply" -> Some [Send; MsgReply] | "dup" -> Some [Send; MsgReply; MsgReply] | "503" -> Some [Send; Msg503]
        | "silent" -> Some [Send; TqExpire; TqRun] | "pre-reply" -> Some [Send; MsgPre; MsgReply]
        | "pre-silent" -> Some [Send; MsgPre; TimerExpire; TimerRun] | "late" -> Some [Send; TqExpire; TqRun; MsgReply]
        | "pre-pre-reply" -> Some [Send; MsgPre; MsgPre; MsgReply]
        | "reply-after-pre-timeout" -> Some [Send; MsgPre; TimerExpire; TimerRun; MsgReply]
        | "pubfail" -> Some [SendFail; TqExpire; TqRun]
        | _ -> None) in
      let kinds = (match acts with
        | Some l -> S.concat "," (L.map (fun o -> match o with Reply -> "reply" | NoResponders -> "noresponders" | Timeout -> "timeout" | SendError -> "senderror") (run l).coq_done)
        | None -> "toolong") in
      (* spec on the implementation's own observation: exactly one completion, no timeout before its deadline *)
      let spec = (match S.split_on_char '|' impl with
        | [ks; early] -> L.length (split_on ',' ks) = 1 && early = "false"
        | _ -> false) in
      { model = kinds ^ "|false"; spec_ok = Some spec; nontrivial = true }
    | _ -> failwith "args");
  "subjects", (fun args impl -> match args with
    | [kind; rid; cid; meth] ->
      let k = (match kind with "subscribe" -> Subjects.CSubscribe | "get" -> Subjects.CGet | "call" -> Subjects.CCall | _ -> Subjects.CAuth) in
      let rs = Subjects.requests k (chars_of_string (unhex rid)) (chars_of_string (unhex cid)) (chars_of_string (unhex meth)) in
      let m = S.concat "," (L.map (fun (s, q) -> hex (string_of_chars s) ^ "|" ^ hex (string_of_chars q)) rs) in
      (* spec on the implementation's own output: no subject contains '?', '*', '>' or white space, none contains "{cid}",
         and all requests of one client request carry the same query *)
      let pairs = L.filter_map (fun e -> match S.split_on_char '|' e with [s; q] -> Some (unhex s, unhex q) | _ -> None) (split_on ',' impl) in
      let has_sub (s : string) (p : string) = let n = S.length p in let rec go i = i + n <= S.length s && (S.sub s i n = p || go (i + 1)) in go 0 in
      let clean s = not (S.contains s '?' || S.contains s '*' || S.contains s '>' || S.contains s ' ' || S.contains s '\t' || has_sub s "{cid}" || has_sub s "..") in
      let spec = L.for_all (fun (s, q) -> clean s && not (has_sub q "{cid}")) pairs
                 && (match pairs with [] -> true | (_, q0) :: tl -> L.for_all (fun (_, q) -> q = q0) tl) in
      { model = m; spec_ok = Some spec; nontrivial = rs <> [] }
    | _ -> failwith "args");
  "gc", (fun args impl -> match args with
    | [op; target; sent; count; spec] ->
      let open Gc in
      let st_of n = (match n with 0 -> Disposed | 1 -> Loading | 2 -> Loaded | 3 -> Ready | 4 -> ToSend | 5 -> Sent | _ -> Deleted) in
      let st_to s = (match s with Disposed -> 0 | Loading -> 1 | Loaded -> 2 | Ready -> 3 | ToSend -> 4 | Sent -> 5 | Deleted -> 6) in
      let g = L.map (fun nd -> match S.split_on_char ',' nd with
        | [d; i; s; st; refs; pr] ->
          { direct = z_of_int (int_of_string d); indirect = z_of_int (int_of_string i); isent = z_of_int (int_of_string s);
            st = st_of (int_of_string st);
            refs = L.map (fun x -> nat_of_int (int_of_string x)) (L.filter (fun x -> x <> "") (S.split_on_char '+' refs));
            present = (pr = "1") }
        | _ -> failwith "gc node") (S.split_on_char '|' spec) in
      let g' = remove_count g (nat_of_int (int_of_string target)) (op = "direct") (sent = "1") (z_of_int (int_of_string count)) true in
      let m = S.concat "|" (L.map (fun n ->
        if n.present then Printf.sprintf "%d,%d,%d,%d,1" (int_of_z n.direct) (int_of_z n.indirect) (int_of_z n.isent) (st_to n.st) else "gone") g') in
      (* spec on the implementation's own output (Gc.try_delete_keeps_direct): a directly subscribed node that the operation
         did not target keeps its registration and state *)
      let outs = S.split_on_char '|' impl in
      let tgt = int_of_string target in
      let spec_ok = (L.length outs = L.length g) && L.for_all (fun x -> x)
        (L.mapi (fun i (n, o) ->
           if i = tgt || not n.present || int_of_z n.direct <= 0 then true else
           match S.split_on_char ',' o with
           | [d; _; _; st; _] -> int_of_string d = int_of_z n.direct && int_of_string st = st_to n.st
           | _ -> false) (L.combine g outs)) in
      { model = m; spec_ok = Some spec_ok; nontrivial = L.exists (fun n -> n.refs <> []) g }
    | _ -> failwith "args");
  "subfsm", (fun args impl -> match args with
    | [ops] ->
      let open SubFsm in
      let vs = function VOk -> "ok" | VAccessDenied -> "system.accessDenied" | VInternalError -> "system.internalError" | VDeleted -> "system.deleted" in
      let op_of (o : string) : op =
        let (name, arg) = (match S.index_opt o ':' with Some i -> (S.sub o 0 i, S.sub o (i + 1) (S.length o - i - 1)) | None -> (o, "")) in
        let n () = nat_of_int (int_of_string arg) in
        match name with
        | "get" -> OpGet (n ()) | "call" -> OpCall (n ()) | "ready" -> OpReady (n ()) | "loaded" -> OpLoaded
        | "resources" -> OpResources | "release" -> OpRelease | "custom" -> OpEvent (ECustom (n ())) | "delete" -> OpEvent EDelete
        | "reaccess" -> OpReaccess | "add" -> OpAdd | "unsub" -> OpUnsub (n ())
        | "answer" -> OpAnswer (match arg with "grant" -> AGrant | "grantnocall" -> AGrantNoCall | "deny" -> ADeny | "denied" -> ADenied | _ -> AError)
        | _ -> failwith ("subfsm op " ^ o) in
      let render (s : sub) (obs : obs list) : string =
        let inline = L.filter_map (fun o -> match o with
          | OCont (k, v) -> Some ("K" ^ string_of_int (int_of_nat k) ^ ":" ^ vs v)
          | OReady k -> Some ("R" ^ string_of_int (int_of_nat k))
          | OAccess -> Some "A"
          | OEvent (ECustom n) -> Some ("F:custom" ^ string_of_int (int_of_nat n))
          | OEvent EDelete -> Some "F:delete"
          | OUnsubEvent v -> Some ("F:unsub:" ^ vs v)
          | ORelease -> None
          | OUnsubOk -> Some "UOK" | OUnsubFail -> Some "UFAIL" | OLimit -> Some "LIMIT") obs in
        let all = inline @ (if L.mem ORelease obs then ["U"] else []) in
        let b x = if x then 1 else 0 in
        Printf.sprintf "%s st=%d q=%d f=%d d=%d eq=%d acc=%s acb=%d rcb=%d rs=%b reg=%b out=%d" (S.concat "," all)
          (int_of_nat (sst_num s.st)) (b s.qL + 2 * b s.qR) (b s.fCalled + 2 * b s.fReacc) (int_of_nat s.direct) (L.length s.eq)
          (match s.acc with None -> "-" | Some a -> vs (can_get a)) (L.length s.acbs) (L.length s.rcbs) s.hasrs s.reg (int_of_nat s.outst) in
      let (_, outs) = L.fold_left (fun (s, acc) o -> let (s', ob) = step s (op_of o) in (s', render s' ob :: acc)) (init, []) (split_on ';' ops) in
      let m = S.concat "|" (L.rev outs) in
      (* spec on the implementation's own output (SubFsm theorems): no continuation runs twice; no event frame while a
         re-access check is pending (q has the reaccess bit) *)
      let per_op = S.split_on_char '|' impl in
      let ks = L.concat_map (fun o -> match S.index_opt o ' ' with
        | Some i -> L.filter (fun x -> S.length x > 1 && S.get x 0 = 'K') (S.split_on_char ',' (S.sub o 0 i)) | None -> []) per_op in
      let ids = L.map (fun x -> match S.index_opt x ':' with Some i -> S.sub x 0 i | None -> x) ks in
      let spec = L.length (L.sort_uniq compare ids) = L.length ids in
      { model = m; spec_ok = Some spec; nontrivial = L.length per_op > 4 }
    | _ -> failwith "args");
  "adapter_events", (fun args impl -> match args with
    | [published] ->
      (* every published event delivered, in order, nothing after Unsubscribe, over-long namespace refused *)
      { model = published ^ "|true|false|true"; spec_ok = None; nontrivial = true }
    | _ -> failwith "args");
  "adapter_closed", (fun args impl -> { model = "true"; spec_ok = None; nontrivial = true });
  "esqueue", (fun args impl -> match args with
    | [ops] ->
      let open EsQueue in
      let op_of (o : string) : op =
        let rest = S.sub o 1 (S.length o - 1) in
        match S.get o 0 with
        | 'e' -> Enq (Plain (nat_of_int (int_of_string rest)))
        | 'E' -> Enq (QEvent (nat_of_int (int_of_string rest)))
        | 'u' -> Unl (nat_of_int (int_of_string rest))
        | _ -> Work in
      let e = L.fold_left step init (L.map op_of (split_on ',' ops)) in
      let ran_s = S.concat "," (L.map (fun r -> match r with
        | RanQ (Plain n) -> "q" ^ string_of_int (int_of_nat n)
        | RanQ (QEvent l) -> "Q" ^ string_of_int (int_of_nat l)
        | RanL id -> "l" ^ string_of_int (int_of_nat id)) e.ran) in
      let (ll, lc) = (match e.locks with Some (pend, cap) -> (L.length pend, int_of_nat cap) | None -> (0, -1)) in
      { model = Printf.sprintf "%s|%d,%d,%d,%d" ran_s (L.length e.queue) ll lc (int_of_nat e.wake);
        spec_ok = None; nontrivial = L.exists (fun r -> match r with RanL _ -> true | _ -> false) e.ran }
    | _ -> failwith "args");
]

let pure_main () =
  let total = ref 0 and mism = ref 0 and specfail = ref 0 and nontriv = ref 0 in
  let per = Hashtbl.create 16 in
  let seen = Hashtbl.create 1024 in
  (try
    while true do
      let line = input_line stdin in
      if line <> "" then begin
        match S.split_on_char '\t' line with
        | fn :: rest when L.length rest >= 1 ->
          let n = L.length rest in
          let args = L.filteri (fun i _ -> i < n - 1) rest and impl = L.nth rest (n - 1) in
          let h = (try L.assoc fn handlers with Not_found -> failwith ("unknown function " ^ fn)) in
          let v = h args impl in
          incr total;
          let (t, m, s, nt) = (try Hashtbl.find per fn with Not_found -> (0, 0, 0, 0)) in
          let dm = if v.model <> impl then 1 else 0 in
          let ds = (match v.spec_ok with Some false -> 1 | _ -> 0) in
          let key = fn ^ "\t" ^ S.concat "\t" args in
          let dn = if v.nontrivial && not (Hashtbl.mem seen key) then (Hashtbl.add seen key (); 1) else 0 in
          Hashtbl.replace per fn (t + 1, m + dm, s + ds, nt + dn);
          mism := !mism + dm; specfail := !specfail + ds; nontriv := !nontriv + dn;
          if dm = 1 then Printf.printf "MISMATCH\t%s\t%s\timpl=%s\tmodel=%s\n" fn (S.concat "\t" args) impl v.model;
          if ds = 1 then Printf.printf "SPECFAIL\t%s\t%s\timpl=%s\n" fn (S.concat "\t" args) impl
        | _ -> failwith ("bad line: " ^ line)
      end
    done
  with End_of_file -> ());
  Hashtbl.iter (fun fn (t, m, s, nt) -> Printf.printf "FUNC\t%s\t%d\t%d\t%d\t%d\n" fn t m s nt) per;
  Printf.printf "SUMMARY\t%d\t%d\t%d\t%d\n" !total !mism !specfail !nontriv

let () =
  match Array.to_list Sys.argv with
  | _ :: "trace" :: files -> Tracep.run_traces files
  | _ :: "core" :: files -> Corelock.run_core files
  | _ -> pure_main ()
