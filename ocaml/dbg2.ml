open Cnv
module L = Stdlib.List
let () =
  let (tr, _) = Tracep.parse_file Sys.argv.(1) in
  let c = nat_of_int (int_of_string Sys.argv.(2)) and r = nat_of_int (int_of_string Sys.argv.(3)) in
  let st = ref Monitors.mstate0 in
  L.iteri (fun i e ->
    let before = L.length (!st).Monitors.viols in
    st := Monitors.step !st e;
    let ps = (match Monitors.get_ptrs !st c r with Some l -> Stdlib.String.concat "," (L.map (fun n -> string_of_int (int_of_nat n)) l) | None -> "-") in
    let s = Monitors.stream_of !st r in
    Printf.printf "ev %d line %d ptrs=[%s] len=%d stale=%b viols=%d%s\n" i (!Tracep.line_tbl).(i) ps (L.length s)
      (L.exists (fun x -> int_of_nat x = int_of_nat r) (!st).Monitors.stale) (L.length (!st).Monitors.viols)
      (if L.length (!st).Monitors.viols > before then " <== VIOL" else "")) tr
