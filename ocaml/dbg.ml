open Cnv
module L = Stdlib.List
let () =
  let (tr, _) = Tracep.parse_file Sys.argv.(1) in
  let st = ref Monitors.mstate0 in
  L.iteri (fun i e ->
    st := Monitors.step !st e;
    (match e with
     | Trace.TSysReset (res, acc) ->
       Printf.printf "ev %d line %d SYSRESET res=[%s] mqsubs=[%s] fetched=[%s]\n" i (!Tracep.line_tbl).(i)
         (Stdlib.String.concat "," (L.map (fun n -> string_of_int (int_of_nat n)) res))
         (Stdlib.String.concat "," (L.map (fun n -> string_of_int (int_of_nat n)) (!st).Monitors.mqsubs))
         (Stdlib.String.concat "," (L.map (fun n -> string_of_int (int_of_nat n)) (!st).Monitors.fetched))
     | Trace.TResetStart r | Trace.TResetNoop r | Trace.TResetTask r ->
       let s = Monitors.stream_of !st r in
       Printf.printf "ev %d line %d RESET r=%d stream=%s\n" i (!Tracep.line_tbl).(i) (int_of_nat r)
         (Stdlib.String.concat " " (L.map (fun e -> match e with Trace.SMark -> "MARK" | Trace.SNop -> "nop" | Trace.SSkipped -> "skip" | Trace.SResetEnd -> "END" | Trace.SChange _ -> "chg" | Trace.SCustom _ -> "cus" | _ -> "e") s))
     | _ -> ())) tr
