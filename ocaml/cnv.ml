(* Conversions between OCaml natives and the extracted Coq datatypes. *)
module L = Stdlib.List
module S = Stdlib.String

let rec nat_of_int (n : int) : Datatypes.nat =
  if n <= 0 then Datatypes.O else Datatypes.S (nat_of_int (n - 1))
let rec int_of_nat (n : Datatypes.nat) : int =
  match n with Datatypes.O -> 0 | Datatypes.S m -> 1 + int_of_nat m

let rec pos_of_int (n : int) : BinNums.positive =
  if n <= 1 then BinNums.Coq_xH
  else if n land 1 = 0 then BinNums.Coq_xO (pos_of_int (n lsr 1))
  else BinNums.Coq_xI (pos_of_int (n lsr 1))
let rec int_of_pos (p : BinNums.positive) : int =
  match p with
  | BinNums.Coq_xH -> 1
  | BinNums.Coq_xO q -> 2 * int_of_pos q
  | BinNums.Coq_xI q -> 2 * int_of_pos q + 1
let z_of_int (n : int) : BinNums.coq_Z =
  if n = 0 then BinNums.Z0 else if n > 0 then BinNums.Zpos (pos_of_int n) else BinNums.Zneg (pos_of_int (- n))
let int_of_z (z : BinNums.coq_Z) : int =
  match z with BinNums.Z0 -> 0 | BinNums.Zpos p -> int_of_pos p | BinNums.Zneg p -> - (int_of_pos p)

let chars_of_string (s : string) : char list = L.init (S.length s) (S.get s)
let string_of_chars (l : char list) : string = S.init (L.length l) (L.nth l)  (* short strings only *)
let string_of_chars (l : char list) : string =
  let b = Buffer.create 16 in L.iter (Buffer.add_char b) l; Buffer.contents b

let hexval c = match c with
  | '0'..'9' -> Char.code c - 48 | 'a'..'f' -> Char.code c - 87 | 'A'..'F' -> Char.code c - 55
  | _ -> failwith "hex"
let unhex (s : string) : string =
  let n = S.length s / 2 in
  S.init n (fun i -> Char.chr (hexval (S.get s (2*i)) * 16 + hexval (S.get s (2*i+1))))
let hex (s : string) : string =
  let b = Buffer.create (2 * S.length s) in
  S.iter (fun c -> Buffer.add_string b (Printf.sprintf "%02x" (Char.code c))) s; Buffer.contents b

let split_on c s = if s = "" then [] else S.split_on_char c s
let ints_of (s : string) : int list = L.map int_of_string (split_on ',' s)
let bool_s b = if b then "1" else "0"
