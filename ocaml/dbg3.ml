open Cnv
module L = Stdlib.List
let () =
  let (tr, _) = Tracep.parse_file Sys.argv.(1) in
  let st = ref Monitors.mstate0 in
  L.iteri (fun i e ->
    st := Monitors.step !st e;
    (match e with
     | Trace.TMqReq (n, t, r, _, _, _) ->
       Printf.printf "line %d MQREQ %d typ=%s r=%d resetting=[%s] pgets=[%s] fetched=[%s] single=%d thr=%d viols=%d\n" (!Tracep.line_tbl).(i) (int_of_nat n)
         (match t with Trace.MGet -> "get" | Trace.MRefetch -> "REFETCH" | _ -> "other") (int_of_nat r)
         (Stdlib.String.concat "," (L.map (fun (a, b) -> Printf.sprintf "%d:%s" (int_of_nat a) (match b with Some m -> string_of_int (int_of_nat m) | None -> "-")) (!st).Monitors.resetting))
         (Stdlib.String.concat "," (L.map (fun (a, b) -> Printf.sprintf "%d:%d" (int_of_nat a) (int_of_nat b)) (!st).Monitors.pgets))
         (Stdlib.String.concat "," (L.map (fun a -> string_of_int (int_of_nat a)) (!st).Monitors.fetched))
         (int_of_nat (!st).Monitors.single) (int_of_nat (!st).Monitors.thr) (L.length (!st).Monitors.viols)
     | _ -> ())) tr
