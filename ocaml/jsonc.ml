(* A minimal JSON reader used to compare HTTP bodies structurally: object member order is irrelevant,
   everything else (including the raw text of strings and numbers) must agree. *)
module L = Stdlib.List
module S = Stdlib.String

type t = Atom of string | Obj of (string * t) list | Arr of t list

exception Bad of string

let parse (s : string) : t =
  let n = S.length s in
  let pos = ref 0 in
  let peek () = if !pos < n then S.get s !pos else '\000' in
  let rec ws () = if !pos < n && (match S.get s !pos with ' ' | '\t' | '\n' | '\r' -> true | _ -> false) then (incr pos; ws ()) in
  let str () =
    let start = !pos in
    if peek () <> '"' then raise (Bad "string");
    incr pos;
    let fin = ref false in
    while not !fin do
      if !pos >= n then raise (Bad "unterminated string");
      (match S.get s !pos with
       | '"' -> fin := true
       | '\\' ->
         (* RFC 8259: only these escapes exist; \u needs four hex digits *)
         incr pos;
         if !pos >= n then raise (Bad "unterminated escape");
         (match S.get s !pos with
          | '"' | '\\' | '/' | 'b' | 'f' | 'n' | 'r' | 't' -> ()
          | 'u' ->
            if !pos + 4 >= n then raise (Bad "short \\u escape");
            for i = 1 to 4 do
              (match S.get s (!pos + i) with
               | '0'..'9' | 'a'..'f' | 'A'..'F' -> ()
               | _ -> raise (Bad "bad \\u escape"))
            done
          | _ -> raise (Bad "unknown escape"))
       | c when Char.code c < 0x20 -> raise (Bad "control char in string")
       | _ -> ());
      incr pos
    done;
    S.sub s start (!pos - start) in
  let rec value () : t =
    ws ();
    match peek () with
    | '{' ->
      incr pos; ws ();
      if peek () = '}' then (incr pos; Obj [])
      else begin
        let ms = ref [] in
        let go = ref true in
        while !go do
          ws (); let k = str () in ws ();
          if peek () <> ':' then raise (Bad "colon"); incr pos;
          let v = value () in ms := (k, v) :: !ms; ws ();
          (match peek () with ',' -> incr pos | '}' -> incr pos; go := false | _ -> raise (Bad "object"))
        done;
        Obj (L.rev !ms)
      end
    | '[' ->
      incr pos; ws ();
      if peek () = ']' then (incr pos; Arr [])
      else begin
        let vs = ref [] in
        let go = ref true in
        while !go do
          let v = value () in vs := v :: !vs; ws ();
          (match peek () with ',' -> incr pos | ']' -> incr pos; go := false | _ -> raise (Bad "array"))
        done;
        Arr (L.rev !vs)
      end
    | '"' -> Atom (str ())
    | _ ->
      let start = !pos in
      while !pos < n && (match S.get s !pos with ',' | '}' | ']' | ' ' | '\t' | '\n' | '\r' -> false | _ -> true) do incr pos done;
      let a = S.sub s start (!pos - start) in
      (match a with
       | "true" | "false" | "null" -> ()
       | _ -> if a = "" || not (S.for_all (fun c -> (c >= '0' && c <= '9') || c = '-' || c = '+' || c = '.' || c = 'e' || c = 'E') a) then raise (Bad ("atom " ^ a)));
      Atom a in
  let v = value () in
  ws ();
  if !pos <> n then raise (Bad "trailing");
  v

let rec canon (j : t) : t = match j with
  | Atom _ -> j
  | Arr l -> Arr (L.map canon l)
  | Obj ms ->
    let ms = L.map (fun (k, v) -> (k, canon v)) ms in
    Obj (L.sort (fun (a, _) (b, _) -> compare a b) ms)

let dup_keys (j : t) : bool =
  let rec go j = match j with
    | Atom _ -> false
    | Arr l -> L.exists go l
    | Obj ms -> let ks = L.map fst ms in L.length (L.sort_uniq compare ks) <> L.length ks || L.exists (fun (_, v) -> go v) ms in
  go j
