(* Parsers/printers for the abstract value notation shared with the Go harness (internal/absval). *)
open Cnv
module L = Stdlib.List
module S = Stdlib.String

let value_of (s : string) : Value.value =
  if s = "x" then Value.VDelete else
  let n = nat_of_int (int_of_string (S.sub s 1 (S.length s - 1))) in
  match (S.get s (0)) with
  | 'p' -> Value.VPrim n | 'r' -> Value.VRef n | 's' -> Value.VSoft n | 'd' -> Value.VData n
  | _ -> failwith ("value " ^ s)
let value_s (v : Value.value) : string = match v with
  | Value.VPrim n -> "p" ^ string_of_int (int_of_nat n)
  | Value.VRef n -> "r" ^ string_of_int (int_of_nat n)
  | Value.VSoft n -> "s" ^ string_of_int (int_of_nat n)
  | Value.VData n -> "d" ^ string_of_int (int_of_nat n)
  | Value.VDelete -> "x"
let kv_of (s : string) : (Datatypes.nat * Value.value) list =
  L.map (fun e -> match S.split_on_char ':' e with
    | [k; v] -> (nat_of_int (int_of_string k), value_of v)
    | _ -> failwith ("kv " ^ s)) (split_on ';' s)
let kv_s (m : (Datatypes.nat * Value.value) list) : string =
  let m = L.sort (fun (a, _) (b, _) -> compare (int_of_nat a) (int_of_nat b)) m in
  S.concat ";" (L.map (fun (k, v) -> string_of_int (int_of_nat k) ^ ":" ^ value_s v) m)
let list_of (s : string) : Value.value list = L.map value_of (split_on ',' s)
let list_s (l : Value.value list) : string = S.concat "," (L.map value_s l)
