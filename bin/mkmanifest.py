#!/usr/bin/env python3
"""Regenerates MANIFEST.json from bin/props.py (claimed checks) and properties.jsonl."""
import json, os, sys
sys.path.insert(0, os.path.dirname(os.path.abspath(__file__)))
import props
ROOT = os.path.dirname(os.path.dirname(os.path.abspath(__file__)))
ids = [json.loads(l)["id"] for l in open(os.path.join(ROOT, "properties.jsonl"))]
checks, na = [], []
for pid in ids:
    p = props.PROPS.get(pid)
    if not p or p.get("unclaimed"):
        na.append({"property_id": pid, "reason": (p or {}).get("unclaimed", "check not built yet in this session (planned: DESIGN.md section 8)")})
        continue
    checks.append({
        "property_id": pid,
        "quick_cmd": "bin/check %s --tier quick" % pid,
        "thorough_cmd": "bin/check %s --tier thorough" % pid,
        "evidence_file": "/verif/evidence/%s.json" % pid,
        "replay_cmd_template": "bin/check %s --replay {path}" % pid,
        "engine": "coq-correspondence",
        "level_claimed": {"category": p.get("level", "proof"), "text": p["level_text"], "design_ref": p.get("design_ref", "DESIGN.md section 9 (%s), section 5 (ties), section 11 (trusted base)" % pid)},
        "level_note": p["level_note"],
        "technique": p["technique"],
    })
m = {
    "version": 1,
    "setup_cmd": "bin/setup",
    "hooks": {
        "guard": "verif",
        "enable": "go build -tags verif (harness module replaces github.com/resgateio/resgate => /repo)",
        "baseline_off_cmd": "cd /repo && GOFLAGS=-mod=mod GOPROXY=off GOSUMDB=off go test -vet=off -count=1 ./...",
        "source_commits": [l.strip() for l in open(os.path.join(ROOT, "hooks_commits.txt")) if l.strip()] if os.path.exists(os.path.join(ROOT, "hooks_commits.txt")) else [],
        "add_only": True,
    },
    "engines": [{"name": "coq-correspondence", "path": "bin/check", "serves_properties": [c["property_id"] for c in checks],
                 "kind_free_text": "Coq 8.16.1 theorems over hand-written executable models (coq/theories), extracted to OCaml (ocaml/driver.ml) and compared with the real code (harness/, -tags verif) on generated inputs, operation sequences and scheduled histories; an integrated model of a slice of the gateway (Comp/Core.v) is run in lock-step with histories of the real gateway (ocaml/corelock.ml)"}],
    "checks": checks,
    "not_applicable": na,
    "notes": "See DESIGN.md. known_findings.json lists recorded genuine defects and the repaired ones (fixed:); replays/ holds their replays; seeded/ holds 124 seeded breaking changes with the report each check gave (seeded/README.md).",
}
json.dump(m, open(os.path.join(ROOT, "MANIFEST.json"), "w"), indent=1)
print("claimed", len(checks), "not claimed", len(na))
