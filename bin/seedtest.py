#!/usr/bin/env python3
"""bin/seedtest.py <dir-with-patch.diff,demo_test.go,meta.json> [--props C01,C02] [--tier quick] [--keep NAME]

Development tool (not a registered check): confirms a seeded change in a scratch worktree of /repo
(suite passes, demonstration fails with it and passes without it), then applies it to /repo, runs the
checks of the given properties, and restores /repo. With --keep the change is stored under /verif/seeded/NAME.
"""
import sys, os, json, subprocess, argparse, shutil, time

ROOT = os.path.dirname(os.path.dirname(os.path.abspath(__file__)))
ENV = dict(os.environ, GOFLAGS="-mod=mod", GOPROXY="off", GOSUMDB="off", GOTOOLCHAIN="local")


def sh(cmd, cwd=None, timeout=1800):
    p = subprocess.run(cmd, cwd=cwd, env=ENV, shell=isinstance(cmd, str), timeout=timeout,
                       stdout=subprocess.PIPE, stderr=subprocess.STDOUT, text=True, errors="replace")
    return p.returncode, p.stdout


def main():
    ap = argparse.ArgumentParser()
    ap.add_argument("dir")
    ap.add_argument("--props", default=None)
    ap.add_argument("--tier", default="quick")
    ap.add_argument("--keep", default=None)
    ap.add_argument("--skip-confirm", action="store_true")
    ap.add_argument("--seeds", default="1")
    a = ap.parse_args()
    d = os.path.abspath(a.dir)
    meta = json.load(open(os.path.join(d, "meta.json")))
    patch = os.path.join(d, "patch.diff")
    props = (a.props or meta.get("property", "")).split(",")
    res = {"confirmed": None, "checks": {}}
    if not a.skip_confirm:
        wt = "/tmp/seedconfirm-%d" % os.getpid()
        sh(["git", "-C", "/repo", "worktree", "add", "--detach", wt, "HEAD"])
        try:
            demo_dir = os.path.join(wt, meta.get("demo_dir", "test"))
            demo_dst = os.path.join(demo_dir, "zz_seed_demo_test.go")
            shutil.copy(os.path.join(d, "demo_test.go"), demo_dst)
            run = meta.get("demo_run", "go test -vet=off -count=1 ./test/")
            rc0, out0 = sh(run, cwd=wt)
            rc, out = sh(["git", "apply", patch], cwd=wt)
            if rc != 0:
                print("patch does not apply:", out)
                res["confirmed"] = False
            else:
                rc1, out1 = sh(run, cwd=wt)
                os.remove(demo_dst)
                rc2, out2 = sh("go build ./... && go test -vet=off -count=1 ./...", cwd=wt)
                res["confirmed"] = (rc0 == 0 and rc1 != 0 and rc2 == 0)
                res["demo_clean_rc"] = rc0
                res["demo_mutant_rc"] = rc1
                res["suite_mutant_rc"] = rc2
                if rc0 != 0:
                    print("demo fails on clean tree:\n", out0[-1500:])
                if rc1 == 0:
                    print("demo passes with the change")
                if rc2 != 0:
                    print("suite fails with the change:\n", out2[-1500:])
        finally:
            sh(["git", "-C", "/repo", "worktree", "remove", "--force", wt])
        print("confirmed:", res["confirmed"])
    # run checks against /repo with the change applied
    rc, out = sh(["git", "-C", "/repo", "status", "--porcelain"])
    if out.strip():
        print("/repo is not clean; refusing", out)
        sys.exit(2)
    rc, out = sh(["git", "-C", "/repo", "apply", patch])
    if rc != 0:
        print("cannot apply to /repo:", out)
        sys.exit(2)
    try:
        for p in props:
            for seed in a.seeds.split(","):
                t = time.time()
                env = dict(ENV, VERIF_SEED=seed)
                pr = subprocess.run([os.path.join(ROOT, "bin", "check"), p, "--tier", a.tier], env=env, stdout=subprocess.PIPE,
                                    stderr=subprocess.STDOUT, text=True, errors="replace", timeout=7200)
                viol = [l for l in pr.stdout.splitlines() if l.startswith("VIOLATION")]
                detail = [l for l in pr.stdout.splitlines() if l.startswith("  ")]
                res["checks"]["%s/%s/seed%s" % (p, a.tier, seed)] = {"rc": pr.returncode, "violations": len(viol), "first": (viol[:1] + detail[:1]),
                                                     "wall_s": round(time.time() - t, 1)}
                print(p, a.tier, "seed", seed, "rc", pr.returncode, "violations", len(viol), "%.0fs" % (time.time() - t))
                for l in (viol[:2] + detail[:2]):
                    print("   ", l[:300])
                # keep the replay of the first violation next to the seeded change
                if viol and a.keep:
                    rp = viol[0].split("replay=")[1].split()[0]
                    os.makedirs(os.path.join(ROOT, "seeded", a.keep), exist_ok=True)
                    if os.path.exists(rp):
                        shutil.copy(rp, os.path.join(ROOT, "seeded", a.keep, "detected-%s.json" % p))
                if pr.returncode != 0:
                    break
    finally:
        sh(["git", "-C", "/repo", "checkout", "--", "."])
        sh(["git", "-C", "/repo", "clean", "-fdq"])
    if a.keep:
        kd = os.path.join(ROOT, "seeded", a.keep)
        os.makedirs(kd, exist_ok=True)
        shutil.copy(patch, os.path.join(kd, "patch.diff"))
        shutil.copy(os.path.join(d, "demo_test.go"), os.path.join(kd, "demo_test.go.txt"))
        meta["verification"] = res
        json.dump(meta, open(os.path.join(kd, "meta.json"), "w"), indent=1)
    print(json.dumps(res)[:600])


if __name__ == "__main__":
    main()
