#!/usr/bin/env python3
"""Regenerates seeded/README.md from seeded/*/meta.json (development tool)."""
import json, glob, os
ROOT = os.path.dirname(os.path.dirname(os.path.abspath(__file__)))
rows = []
for d in sorted(glob.glob(os.path.join(ROOT, "seeded", "*", "meta.json"))):
    m = json.load(open(d))
    name = os.path.basename(os.path.dirname(d))
    ch = m.get("verification", {}).get("checks", {})
    det = [k for k, x in ch.items() if x.get("violations", 0) > 0]
    first = ""
    for k, x in ch.items():
        if x.get("first"):
            first = x["first"][-1].strip()
    summ = " ".join(m.get("summary", "").split())
    conf = m.get("verification", {}).get("confirmed", True)
    rows.append((name, m.get("property", ""), summ[:160], ("yes" if det else "no") if conf is not False else "not confirmed", first[:150].replace("|", "/")))
out = ["# Seeded changes", "",
       "Breaking changes produced by sub-agents that were given only the text of one property and a scratch worktree of /repo.",
       "Each was confirmed in a scratch worktree (the 226 tests pass with it, its demonstration fails with it and passes without it),",
       "then applied to /repo, checked with `bin/check <property>` (quick tier, seed 1) and removed again. `patch.diff` applies with",
       "`git -C /repo apply`; `demo_test.go.txt` is the demonstration; `detected-<id>.json` the replay the check produced.",
       "`r2-*` are from the second round, whose agents were asked to avoid the most obvious code site; `r3-*` (10 properties) and",
       "`r4-*` (12 properties) and `r5-*` (8 properties) from later rounds with the same instruction. A change whose confirmation fails (the suite does not",
       "pass with it on the current tree) is listed as not confirmed and not counted.", "",
       "| change | property | what was changed | caught by its property's quick check | first report |", "|---|---|---|---|---|"]
for r in rows:
    out.append("| %s | %s | %s | %s | %s |" % r)
n = sum(1 for r in rows if r[3] != "not confirmed"); c = sum(1 for r in rows if r[3] == "yes")
out += ["", "%d of %d caught by the quick check of the property they were written against." % (c, n), ""]
open(os.path.join(ROOT, "seeded", "README.md"), "w").write("\n".join(out))
print(c, n)
