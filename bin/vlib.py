"""Shared machinery of bin/check: builds, Coq obligations, stage runner, triage, evidence."""
import os, sys, re, json, time, subprocess, fcntl, glob, hashlib

ROOT = os.path.dirname(os.path.dirname(os.path.abspath(__file__)))
COQ = os.path.join(ROOT, "coq")
OCAML = os.path.join(ROOT, "ocaml")
HARNESS = os.path.join(ROOT, "harness")
BUILD = os.path.join(ROOT, ".build")
EVID = os.path.join(ROOT, "evidence")
REPLAYS = os.path.join(ROOT, "replays", "run")
REPO = "/repo"

GOENV = dict(os.environ, GOFLAGS="-mod=mod", GOPROXY="off", GOSUMDB="off", GOTOOLCHAIN="local",
             CGO_ENABLED="0")

FORBIDDEN = r"\b(Admitted|admit|Axiom|Axioms|Parameter|Parameters|Conjecture|Conjectures|Hypothesis|Variable)\b|Unset Guard|bypass_check|Admit Obligations|type-in-type|impredicative-set|native_compute"

TRUSTED_BASE = [
    "Coq 8.16.1 kernel (coqc; vm_compute only, no native_compute)",
    "no axioms declared; Print Assumptions output recorded per theorem in coverage.assumptions_report",
    "extraction: ExtrOcamlBasic + ExtrOcamlString (Extract Inductive bool/option/unit/prod/list/sumbool, ascii->char, string->char list); nat/N/Z stay Coq datatypes; OCaml 4.13.1",
    "hand-written Gallina models tied to /repo by the correspondence harness (Go, -tags verif) and the OCaml driver",
    "lock-step glue ocaml/corelock.ml (maps trace lines to ops of the extracted Comp/Core.v machine, canonicalises outputs; contains no model of the gateway)",
]


def sh(cmd, cwd=None, env=None, timeout=None, inp=None):
    p = subprocess.run(cmd, cwd=cwd, env=env, timeout=timeout, input=inp,
                       stdout=subprocess.PIPE, stderr=subprocess.STDOUT, text=True, errors="replace")
    return p.returncode, p.stdout


class Lock:
    def __init__(self, name):
        os.makedirs(BUILD, exist_ok=True)
        self.path = os.path.join(BUILD, name + ".lock")
    def __enter__(self):
        self.f = open(self.path, "w")
        fcntl.flock(self.f, fcntl.LOCK_EX)
    def __exit__(self, *a):
        fcntl.flock(self.f, fcntl.LOCK_UN)
        self.f.close()


def newest(paths):
    t = 0
    for p in paths:
        try:
            t = max(t, os.path.getmtime(p))
        except OSError:
            pass
    return t


def coq_sources():
    return glob.glob(os.path.join(COQ, "theories", "**", "*.v"), recursive=True) + \
        [os.path.join(COQ, "_CoqProject"), os.path.join(COQ, "Extract.v")]


def ensure_coq():
    """Full .vo build (make). Returns (ok, log)."""
    with Lock("coq"):
        if not os.path.exists(os.path.join(COQ, "Makefile")) or \
                os.path.getmtime(os.path.join(COQ, "Makefile")) < os.path.getmtime(os.path.join(COQ, "_CoqProject")):
            rc, out = sh(["coq_makefile", "-f", "_CoqProject", "-o", "Makefile"], cwd=COQ, timeout=120)
            if rc != 0:
                return False, out
        rc, out = sh(["timeout", "2400", "make", "-j16"], cwd=COQ, timeout=2500)
        return rc == 0, out


def ensure_driver():
    """Re-extract the models and rebuild the OCaml driver when any .v changed. Returns (ok, log)."""
    with Lock("ocaml"):
        gen = os.path.join(OCAML, "gen")
        exe = os.path.join(OCAML, "_build", "default", "driver.exe")
        stamp = os.path.join(gen, ".stamp")
        src_t = newest(coq_sources())
        log = ""
        if not os.path.exists(stamp) or os.path.getmtime(stamp) < src_t:
            os.makedirs(gen, exist_ok=True)
            for f in glob.glob(os.path.join(gen, "*.ml*")):
                os.remove(f)
            rc, out = sh(["timeout", "600", "coqc", "-Q", os.path.join(COQ, "theories"), "RG",
                          os.path.join(COQ, "Extract.v")], cwd=gen, timeout=700)
            log += out
            if rc != 0:
                return False, log
            open(stamp, "w").write(str(time.time()))
        ml_t = newest(glob.glob(os.path.join(OCAML, "*.ml")) + [stamp, os.path.join(OCAML, "dune")])
        if not os.path.exists(exe) or os.path.getmtime(exe) < ml_t:
            rc, out = sh(["timeout", "600", "dune", "build", "./driver.exe"], cwd=OCAML, timeout=700)
            log += out
            if rc != 0:
                return False, log
        return True, log


def driver_exe():
    return os.path.join(OCAML, "_build", "default", "driver.exe")


def build_harness(cmds):
    """go build -tags verif of the harness commands against /repo's working tree."""
    with Lock("go"):
        os.makedirs(BUILD, exist_ok=True)
        # keep go.sum in step with /repo
        try:
            src = open(os.path.join(REPO, "go.sum")).read()
            dst_p = os.path.join(HARNESS, "go.sum")
            if not os.path.exists(dst_p) or open(dst_p).read() != src:
                open(dst_p, "w").write(src)
        except OSError:
            pass
        logs = ""
        for c in cmds:
            rc, out = sh(["timeout", "600", "go", "build", "-tags", "verif", "-o", os.path.join(BUILD, c),
                          "./cmd/" + c], cwd=HARNESS, env=GOENV, timeout=700)
            logs += out
            if rc != 0:
                return False, logs
        return True, logs


def audit():
    """Static audit of the development: no Admitted/Axiom/... anywhere."""
    bad = []
    for p in coq_sources():
        if not p.endswith(".v"):
            continue
        txt = open(p, errors="replace").read()
        # strip comments (non-nested approximation, applied repeatedly)
        prev = None
        while prev != txt:
            prev = txt
            txt = re.sub(r"\(\*[^*(]*(?:\*(?!\))[^*(]*|\((?!\*)[^*(]*)*\*\)", " ", txt)
        in_section = 0
        for ln, line in enumerate(txt.split("\n"), 1):
            if re.match(r"\s*Section\b", line):
                in_section += 1
            if re.match(r"\s*End\b", line) and in_section > 0:
                in_section -= 1
            m = re.search(FORBIDDEN, line)
            if m:
                w = m.group(0)
                if w in ("Variable", "Variables", "Hypothesis", "Context") and in_section > 0:
                    continue
                bad.append("%s:%d: %s" % (os.path.relpath(p, ROOT), ln, line.strip()[:100]))
    return bad


def check_props_file(rel):
    """Recompile the property theorem file; return (ok, theorems, assumptions report, log)."""
    path = os.path.join(COQ, "theories", rel)
    src = open(path).read()
    theorems = re.findall(r"^\s*(?:Theorem|Corollary)\s+(\w+)", src, re.M)
    rc, out = sh(["timeout", "900", "coqc", "-Q", "theories", "RG", os.path.join("theories", rel)], cwd=COQ, timeout=1000)
    report = {}
    printed = re.findall(r"Print Assumptions\s+([\w.]+)\s*\.", src)
    blocks = re.split(r"(?=Closed under the global context|Axioms:)", out)
    blocks = [b for b in blocks if b.startswith("Closed under") or b.startswith("Axioms:")]
    for i, name in enumerate(printed):
        if i < len(blocks):
            b = blocks[i].strip()
            report[name] = "closed under the global context" if b.startswith("Closed") else " ".join(b.split())[:600]
    return rc == 0, theorems, report, out


class Ctx:
    def __init__(self, pid, tier, seed, replay=None):
        self.pid, self.tier, self.seed, self.replay = pid, tier, seed, replay
        self.t0 = time.time()
        self.evaluations = 0
        self.nontrivial = 0
        self.samples = []
        self.violations = []   # dicts: {what, replay: {...}, no_input: bool}
        self.known = []        # strings
        self.stage_reports = {}
        self.notes = []
        self.traces = 0
        self.known_db = load_known()
        os.makedirs(REPLAYS, exist_ok=True)
        os.makedirs(EVID, exist_ok=True)
        self.work = os.path.join(BUILD, "work-%s-%d" % (pid, os.getpid()))
        os.makedirs(self.work, exist_ok=True)

    # ---- reporting helpers used by stages
    def add_violation(self, what, payload, no_input=False):
        self.violations.append({"what": what, "replay": payload, "no_input": no_input})

    def add_known(self, fid, what):
        s = "%s %s" % (fid, what)
        if s not in self.known:
            self.known.append(s)

    def sample(self, x, cap=6):
        if len(self.samples) < cap:
            self.samples.append(x)

    def q(self, quick, thorough):
        return thorough if self.tier == "thorough" else quick

    # ---- main
    def run(self, spec):
        obligations = discharged = 0
        report = {}
        broken_theorems = []
        ok, log = ensure_coq()
        if not ok:
            broken_theorems.append("coq build failed: " + log[-1500:])
        coq_ok = ok
        theorems = []
        if ok and spec.get("coq"):
            for rel in spec["coq"]:
                ok2, ths, rep, out = check_props_file(rel)
                theorems += ths
                obligations += len(ths)
                report.update(rep)
                if ok2:
                    discharged += len(ths)
                else:
                    broken_theorems.append("%s does not check: %s" % (rel, out[-1500:]))
        bad = audit()
        if bad:
            broken_theorems.append("audit: forbidden vernacular: " + "; ".join(bad[:10]))
        # non-closed assumptions are reported (not a failure: stdlib axioms are allowed), our own would be caught by audit
        if coq_ok:
            ok, log = ensure_driver()
            if not ok:
                broken_theorems.append("extraction/driver build failed: " + log[-1500:])
        hs = spec.get("harness", [])
        harness_ok = True
        if hs:
            ok, log = build_harness(hs)
            if not ok:
                harness_ok = False
                self.add_violation("harness does not build against /repo (the verif-tagged exports/hooks the "
                                   "correspondence relies on no longer match the source): " + log[-1500:],
                                   {"kind": "build", "log": log[-4000:]}, no_input=True)
        if coq_ok and not broken_theorems and self.tier == "thorough" and spec.get("coq"):
            # independent re-check of the compiled theorem files and everything they depend on
            for rel in spec["coq"]:
                mod = "RG." + rel[:-2].replace("/", ".")
                if True:
                    rc_, out_ = sh(["timeout", "3000", "coqchk", "-silent", "-o", "-Q", "theories", "RG", mod], cwd=COQ, timeout=3100)
                summary = out_[out_.find("CONTEXT SUMMARY"):][:1500] if "CONTEXT SUMMARY" in out_ else out_[-800:]
                report["coqchk " + mod] = " ".join(summary.split())
                if rc_ != 0:
                    broken_theorems.append("coqchk rejects %s: %s" % (mod, out_[-1200:]))
        # a broken proof obligation does not stop the run: the correspondence stages still search for a failing input
        if harness_ok and os.path.exists(driver_exe()):
            for name, fn, kw in spec.get("stages", []):
                t = time.time()
                try:
                    rep = fn(self, **kw)
                except subprocess.TimeoutExpired as e:
                    rep = {"error": "stage timeout: %s" % e}
                    self.add_violation("stage %s timed out (stall)" % name, {"kind": "timeout", "stage": name}, no_input=True)
                rep = rep or {}
                rep["wall_s"] = round(time.time() - t, 2)
                self.stage_reports[name] = rep
        for b in broken_theorems:
            self.add_violation(b, {"kind": "theorem", "detail": b}, no_input=True)

        # timing-dependent recorded findings cannot be replayed deterministically: they are listed on every run
        for f in self.known_db.get("findings", []):
            if f.get("timing_dependent") and self.pid in f.get("properties", []):
                self.add_known(f["id"], f["what"])
        # ---- output
        rc = 0
        for k in self.known:
            print("KNOWN-FINDING: property=%s %s" % (self.pid, k))
        # report at most a handful of violations, first with concrete inputs
        self.violations.sort(key=lambda v: v["no_input"])
        for i, v in enumerate(self.violations[:5]):
            rp = os.path.join(REPLAYS, "%s-%s-%d-%d.json" % (self.pid, self.tier, self.seed, i))
            json.dump({"property": self.pid, "what": v["what"], "replay": v["replay"], "seed": self.seed,
                       "tier": self.tier}, open(rp, "w"), indent=1)
            tail = " no-failing-input-found" if v["no_input"] else ""
            print("VIOLATION property=%s replay=%s%s" % (self.pid, rp, tail))
            print("  " + v["what"][:400].replace("\n", " "))
            rc = 1
        level = spec.get("level", "proof")
        cov = {
            "obligations": obligations, "discharged": discharged,
            "checker_cmd": "make -C coq (coq_makefile, full .vo) && coqc -Q theories RG theories/%s; audit grep; "
                           "OCaml extraction driver on implementation cases" % ",".join(spec.get("coq", [])),
            "trusted_base": TRUSTED_BASE + spec.get("trusted", []),
            "theorems": theorems,
            "assumptions_report": report,
            "evaluations": self.evaluations,
            "distinct_nontrivial": self.nontrivial,
            "rule": spec.get("rule", ""),
            "samples": self.samples[:8] or ["(no correspondence cases in this run)"],
            "traces_validated_against_impl": self.traces,
            "stages": self.stage_reports,
            "known_findings_reported": self.known,
            "notes": self.notes,
        }
        ev = {"property_id": self.pid, "tier": self.tier, "seed": self.seed, "level": level, "coverage": cov,
              "assumptions": spec.get("assumptions", []), "wall_s": round(time.time() - self.t0, 2),
              "violations": len(self.violations)}
        json.dump(ev, open(os.path.join(EVID, self.pid + ".json"), "w"), indent=1)
        # tidy work dir
        subprocess.run(["rm", "-rf", self.work])
        print("%s %s: obligations %d/%d, evaluations %d, nontrivial %d, known %d, violations %d, %.1fs" % (
            self.pid, self.tier, discharged, obligations, self.evaluations, self.nontrivial, len(self.known),
            len(self.violations), time.time() - self.t0))
        return rc


def load_known():
    p = os.path.join(ROOT, "known_findings.json")
    try:
        return json.load(open(p))
    except OSError:
        return {"findings": [], "fixed": []}


# ------------------------------------------------------------------ pure differential stage

def _pure_once(ctx, suites, seed, n, tag):
    cases = os.path.join(ctx.work, "cases-%s.txt" % tag)
    if suites == ["subjects"]:
        # the subject-construction cases come from the real gateway (gwrun), not from a pure routine
        rc, out = sh([os.path.join(BUILD, "gwrun"), "-subjects", cases, "-seed", str(seed), "-n", str(n)], timeout=1200)
    else:
        rc, out = sh([os.path.join(BUILD, "purediff"), "-seed", str(seed), "-n", str(n), "-out", cases,
                      "-suites", ",".join(suites)], timeout=1200)
    if rc != 0:
        return {"crash": out}
    gen = dict((l.split("\t")[1], int(l.split("\t")[2])) for l in out.splitlines() if l.startswith("GEN\t"))
    rc, dout = sh([driver_exe(), "pure"], inp=open(cases).read(), timeout=1200)
    if rc != 0:
        return {"driver": dout}
    r = {"gen": gen, "mism": [], "specfail": [], "funcs": {}, "summary": (0, 0), "cases": cases}
    for l in dout.splitlines():
        f = l.split("\t")
        if f[0] == "MISMATCH":
            r["mism"].append(f[1:])
        elif f[0] == "SPECFAIL":
            r["specfail"].append(f[1:])
        elif f[0] == "FUNC":
            r["funcs"][f[1]] = {"cases": int(f[2]), "mismatch": int(f[3]), "specfail": int(f[4]), "distinct_nontrivial": int(f[5])}
        elif f[0] == "SUMMARY":
            r["summary"] = (int(f[1]), int(f[4]))
    return r


def stage_pure(ctx, suites, n_quick=3000, n_thorough=60000, widen=4):
    """Implementation vs extracted model vs spec on generated inputs (DESIGN 5.1)."""
    n = ctx.q(n_quick, n_thorough)
    r = _pure_once(ctx, suites, ctx.seed, n, "main")
    if "crash" in r and len(suites) > 1:
        # one suite crashing on the changed implementation must not hide what the other suites have to report:
        # run every suite on its own and merge
        merged = {"generated": {}, "functions": {}, "mismatches": 0, "specfails": 0, "widened_cases": 0, "crashed_suites": []}
        for su in suites:
            rep = stage_pure(ctx, [su], n_quick=n_quick, n_thorough=n_thorough, widen=widen)
            if "error" in rep:
                merged["crashed_suites"].append(su)
                continue
            merged["generated"].update(rep["generated"])
            merged["functions"].update(rep["functions"])
            for k in ("mismatches", "specfails", "widened_cases"):
                merged[k] += rep[k]
        return merged
    if "crash" in r:
        ctx.add_violation("purediff crashed on the implementation: " + r["crash"][-1500:], {"kind": "crash", "log": r["crash"][-4000:]})
        return {"error": r["crash"][-500:]}
    if "driver" in r:
        ctx.add_violation("model driver failed: " + r["driver"][-1500:], {"kind": "driver", "log": r["driver"][-4000:]}, no_input=True)
        return {"error": r["driver"][-500:]}
    ctx.evaluations += r["summary"][0]
    ctx.nontrivial += r["summary"][1]
    total = sum(r["gen"].values())
    with open(r["cases"]) as fh:
        for i, l in enumerate(fh):
            if i % max(1, total // 6) == 0:
                ctx.sample(l.rstrip("\n"))
    specfail = list(r["specfail"])
    mism = list(r["mism"])
    widened = 0
    # correspondence broken without a failing input yet: widen the search (more seeds, larger n)
    broken_fns = set(m[0] for m in mism) - set(s[0] for s in specfail)
    if broken_fns:
        for k in range(1, widen + 1):
            r2 = _pure_once(ctx, suites, ctx.seed * 7919 + k, n * 2, "w%d" % k)
            if "gen" not in r2:
                break
            widened += r2["summary"][0]
            specfail += [s for s in r2["specfail"] if s[0] in broken_fns]
            if broken_fns <= set(s[0] for s in specfail):
                break
    seen = set()
    for s in specfail:
        if s[0] in seen:
            continue
        seen.add(s[0])
        ctx.add_violation("%s: implementation output violates the specification on input %s (%s)" % (s[0], s[1:-1], s[-1]),
                          {"kind": "pure", "function": s[0], "args": s[1:-1], "impl": s[-1]})
    for m in mism:
        if m[0] in seen:
            continue
        seen.add(m[0])
        ctx.add_violation("%s: correspondence broken (implementation differs from Coq model) on %s: %s %s; "
                          "the implementation's output still meets the specification on every input searched (%d more cases)"
                          % (m[0], m[1:-2], m[-2], m[-1], widened),
                          {"kind": "pure-correspondence", "function": m[0], "args": m[1:-2], "impl": m[-2], "model": m[-1],
                           "broken": "correspondence %s: implementation = Coq model" % m[0]}, no_input=True)
    return {"generated": r["gen"], "functions": r["funcs"], "mismatches": len(mism), "specfails": len(specfail), "widened_cases": widened}


# ------------------------------------------------------------------ gateway exploration stage

def viol_context(path, c, ln, vrid=None, prop=None):
    """Context of a monitor violation inside its trace: which recorded-finding trigger, if any, precedes it
    within the same task. Used only to attribute violations to known findings (never to hide new ones)."""
    lines = open(path).read().split("\n")
    reqkind = {}
    reqrid = {}
    for x in lines[:ln]:
        g = x.split("\t")
        if g[0] == "REQ" and len(g) > 3:
            reqkind[(g[1], g[2])] = g[3]
            if len(g) > 4:
                reqrid[(g[1], g[2])] = g[4]
    ctx = []
    # recorded finding KF-PENDING-DROPPED, base case: an unsubscribe request of this connection succeeded while a
    # subscribe/get request for the same resource id was still outstanding
    outst, reqs = {}, {}
    rid_of_viol = None
    mqconn = {}
    accreq, getgranted = {}, {}
    pendres = {}
    for x in lines[:ln]:
        g = x.split("\t")
        # a call/auth answered with a resource response takes a direct subscription on that resource while the
        # client's request is still outstanding
        if g[0] == "MQREQ" and len(g) > 5 and g[2] == "access" and g[5] == c:
            accreq[g[1]] = g[3]
        elif g[0] == "MQRESP" and len(g) > 2 and g[1] in accreq:
            # latest access answer for this connection and resource: did it grant get?
            # (after a malformed access answer the trace cannot tell a refusal from a grant - the gateway reads some of
            # them as get:false, others as an internal error, and the monitor then cannot classify the error entry:
            # such histories keep the wide attribution)
            getgranted[accreq.pop(g[1])] = ((g[2] == "access" and len(g) > 3 and g[3] == "1")
                                            or (g[2] == "err" and len(g) > 3 and g[3] == "malformed"))
        if g[0] == "MQREQ" and len(g) > 5 and g[2] in ("call", "auth"):
            mqconn[g[1]] = g[5]
        elif g[0] == "MQRESP" and len(g) > 3 and g[2] == "resource" and mqconn.get(g[1]) == c:
            outst[g[3]] = outst.get(g[3], 0) + 1
            pendres[g[3]] = pendres.get(g[3], 0) + 1
        elif g[0] == "RESP" and len(g) > 4 and g[1] == c and g[3] == "okrid":
            outst[g[4]] = outst.get(g[4], 0) - 1
            pendres[g[4]] = pendres.get(g[4], 0) - 1
        if g[0] == "REQ" and len(g) > 4 and g[1] == c:
            reqs[g[2]] = (g[3], g[4])
            if g[3] in ("subscribe", "get", "call", "auth", "new"):
                outst[g[4]] = outst.get(g[4], 0) + 1
        elif g[0] == "RESP" and len(g) > 3 and g[1] == c and g[2] in reqs:
            k, rid = reqs.pop(g[2])
            if k in ("subscribe", "get", "call", "auth", "new"):
                outst[rid] = outst.get(rid, 0) - 1
            elif k == "unsubscribe" and g[3] == "ok" and outst.get(rid, 0) > 0:
                ctx.append("unsub-while-pending:" + rid)
            if len(g) > 5 and g[3] == "okrid" and ("E~%s~" % g[4]) in g[5] and getgranted.get(g[4]):
                # a call/auth/new resource response whose resource failed to load although get was granted: the gateway
                # keeps a direct subscription on the error placeholder (recorded finding KF-ERROR-SUBSCRIPTION). An entry
                # that is the access refusal itself is not that finding: there the gateway must release the subscription
                ctx.append("error-placeholder:" + g[4])
        elif g[0] == "EV" and len(g) > 3 and g[1] == c and g[3] in ("delete", "unsub") and outst.get(g[2], 0) > 0:
            # ... or a delete / unsubscribe event reached the client while its request for that id was outstanding
            ctx.append("revoked-while-pending:" + g[2])
    # a resource response (call/auth/new answered with a resource) is pending for these ids at the violation
    # (the recorded finding needs the client to have held the resource before - through a reference - so that the gateway
    # considers it sent: the resource must have been delivered to this connection in an earlier resource set)
    def delivered_before(rid0):
        for x in lines[:ln]:
            h = x.split("\t")
            if h[0] in ("RESP", "EV") and len(h) > 1 and h[1] == c and (("M~%s~" % rid0) in x or ("C~%s~" % rid0) in x or x.endswith("C~%s~" % rid0)):
                return True
        return False
    for rid0, n0 in pendres.items():
        if n0 > 0 and delivered_before(rid0):
            ctx.append("pending-resource-response:" + rid0)
            ctx.append("pending-resource-response")
    # earlier in this history the connection was sent events right after a get response (recorded finding
    # KF-GET-EVENTS): resources handed over inside such events are unknown to the client from then on
    after_get = False
    for x in lines[:ln]:
        h = x.split("\t")
        if h[0] == "SCHED":
            after_get = False
        elif h[0] == "RESP" and len(h) > 2 and h[1] == c and reqkind.get((h[1], h[2])) == "get":
            after_get = True
        elif h[0] == "EV" and len(h) > 1 and h[1] == c and after_get:
            ctx.append("after-get-response")
            break
    # the violating frame answers a get request during whose lifetime another get response reached this connection
    g = lines[ln - 1].split("\t") if 0 < ln <= len(lines) else []
    for x in lines[:ln]:
        h = x.split("\t")
        if len(h) > 5 and h[0] == "RESP" and h[1] == c and h[3] == "okrid" and ("~" + h[4] + "~") not in h[5]:
            # a call/auth/new resource response that does not carry the resource's data (recorded finding
            # KF-RESOURCE-RESPONSE-STALE); the dangling reference persists in later frames
            ctx.append("okrid-without-data:" + h[4])
            ctx.append("okrid-without-data")
    if len(g) > 3 and g[0] == "RESP" and g[1] == c:
        start = None
        for i0, x in enumerate(lines[:ln - 1]):
            h = x.split("\t")
            if h[0] == "REQ" and len(h) > 3 and h[1] == c and h[2] == g[2] and h[3] == "get":
                start = i0
        if start is not None:
            for x in lines[start:ln - 1]:
                h = x.split("\t")
                if h[0] == "RESP" and h[1] == c and reqkind.get((h[1], h[2])) == "get":
                    ctx.append("after-get-response")
                    break
    i = ln - 2
    while i >= 0:
        g = lines[i].split("\t")
        if g[0] == "SCHED":
            break
        if g[0] == "RESP" and g[1] == c and reqkind.get((g[1], g[2])) == "get":
            ctx.append("after-get-response")
        if g[0] == "SITE":
            ctx.append("site:" + g[1])
        i -= 1
    # site marks count only when they were recorded for this connection on the violation's own resource or on a
    # resource connected to it by references (the recorded collector/pending findings propagate along references)
    vr = vrid
    if vr is not None and prop == "C07":
        vr = reqrid.get((c, vr), vr)      # C07 violations name the request id
    edges = {}
    mqrid = {}
    for l in lines:
        g = l.split("\t")
        src = None
        if g[0] == "TRUTH" and len(g) > 3:
            src, vals = g[1], g[3:]
        elif g[0] == "MQREQ" and len(g) > 3:
            mqrid[g[1]] = g[3]
        elif g[0] == "MQRESP" and len(g) > 4 and g[2] in ("get", "query", "qmodel", "qcoll"):
            src, vals = mqrid.get(g[1]), g[3:]
        elif g[0] == "MQEV" and len(g) > 3:
            src, vals = g[1], g[3:]
        if src is not None:
            for m in re.finditer(r"(?:^|[:;,\t])r([0-9]+(?:q[0-9]+)?)", "\t".join(vals)):
                edges.setdefault(src, set()).add(m.group(1))
                edges.setdefault(m.group(1), set()).add(src)
    rel = {vr}
    if prop == "C07":
        # the unanswered request may be a call/auth whose resource response names another resource
        rel |= set(r0 for r0, n0 in pendres.items() if n0 > 0)
    todo = list(rel)
    while todo:
        x = todo.pop()
        for y in edges.get(x, ()):
            if y not in rel:
                rel.add(y)
                todo.append(y)
    # a pending-request context recorded for a resource connected to the violation's resource by references covers it
    # too (the client holds the children of a resource it was wrongly left with)
    if vr is not None:
        for cx in list(ctx):
            for pref in ("unsub-while-pending:", "revoked-while-pending:", "error-placeholder:"):
                if cx.startswith(pref) and cx[len(pref):] in rel and cx[len(pref):] != vr:
                    ctx.append(pref + vr)
    sites = set()
    for l in lines[:ln]:
        if l.startswith("SITE\t"):
            g = l.split("\t")
            if len(g) > 3 and (g[2] == c or not g[2].startswith(("c", "h"))) and (vr is None or g[3] in rel):
                sites.add(g[1])
                if g[3] == vr:
                    sites.add(g[1] + "@same")     # recorded for the violation's own resource
            elif len(g) == 3 and (g[2] == c or not g[2].startswith(("c", "h"))):
                sites.add(g[1])
    return sorted(set(ctx)), sorted(sites)


def match_known(ctx, pid, kind, contexts, sites, rid=None):
    for f in ctx.known_db.get("findings", []):
        if pid not in f.get("properties", []):
            continue
        if f.get("crash_contains"):
            continue          # crash findings are matched on the panic text only (triage_gw)
        if not (f.get("context") or f.get("contexts") or f.get("sites") or f.get("context_prefixes")):
            continue          # a finding without a signature never absorbs a violation
        if f.get("kind") not in (None, kind):
            continue
        need = f.get("context")
        if need and need not in contexts:
            continue
        anyctx = f.get("contexts")
        if anyctx and not (set(anyctx) & set(contexts)):
            continue
        need_sites = f.get("sites")
        if need_sites and f.get("site_scope") == "same":
            need_sites = [x + "@same" for x in need_sites]
        pref = f.get("context_prefixes")
        by_site = bool(need_sites and (set(need_sites) & set(sites)))
        by_ctx = bool(pref and rid is not None and any((p + rid) in contexts for p in pref))
        if (need_sites or pref) and not (by_site or by_ctx):
            continue
        return f
    return None


def run_traces(ctx, tdir):
    files = sorted(glob.glob(os.path.join(tdir, "*.trace")))
    viols, stats, stalls = [], [], []
    crashes = []
    for i in range(0, len(files), 400):
        rc, out = sh([driver_exe(), "trace"] + files[i:i + 400], timeout=1800)
        if rc != 0:
            ctx.add_violation("monitor driver failed: " + out[-1500:], {"kind": "driver", "log": out[-3000:]}, no_input=True)
            return [], [], []
        for l in out.splitlines():
            f = l.split("\t")
            if f[0] == "VIOL":
                viols.append({"path": f[1], "prop": f[2], "kind": f[3], "c": f[4], "r": f[5], "line": int(f[6])})
            elif f[0] == "TRACE":
                stats.append({"path": f[1], "events": int(f[2]), "frames": int(f[3]), "svc_events": int(f[4]), "q": int(f[5]),
                              "viols": int(f[6]), "sites": f[7] if len(f) > 7 else ""})
            elif f[0] == "STALL":
                stalls.append(f[1])
            elif f[0] == "CRASHED":
                crashes.append((f[1], f[2] if len(f) > 2 else ""))
    ctx.last_crashes = crashes
    return viols, stats, stalls


def confirm_by_replay(ctx, hist, v, tries=2):
    """Replay a history in a fresh process and tell whether the monitor violation v (same property and kind) shows again."""
    for k in range(tries):
        d = os.path.join(ctx.work, "confirm-%d-%d" % (os.getpid(), int(time.time() * 1000) % 1000000))
        rc, out = sh([os.path.join(BUILD, "gwrun"), "-replay", hist, "-out", d], timeout=600)
        if rc != 0:
            return True     # the replay died: reported by the caller with the history
        files = glob.glob(os.path.join(d, "*.trace"))
        rc2, out2 = sh([driver_exe(), "trace"] + files, timeout=600)
        subprocess.run(["rm", "-rf", d])
        for l in out2.splitlines():
            f = l.split("\t")
            if f[0] == "VIOL" and f[2] == v["prop"] and f[3] == v["kind"]:
                return True
            if f[0] in ("STALL", "CRASHED"):
                return True
    return False


def confirm_core_by_replay(ctx, hist, tries=2):
    """Replay a history and tell whether the lock-step with Comp/Core.v breaks again."""
    for k in range(tries):
        d = os.path.join(ctx.work, "confirmc-%d-%d" % (os.getpid(), int(time.time() * 1000) % 1000000))
        rc, out = sh([os.path.join(BUILD, "gwrun"), "-replay", hist, "-out", d], timeout=600)
        if rc != 0:
            return True
        files = glob.glob(os.path.join(d, "*.trace"))
        rc2, out2 = sh([driver_exe(), "core"] + files, timeout=600)
        subprocess.run(["rm", "-rf", d])
        if any(l.startswith(("COREDIFF", "COREOUT")) for l in out2.splitlines()):
            return True
    return False


def triage_gw(ctx, viols, stalls, stall_props=(), monitor_props=None):
    """Attribute monitor violations of this property to known findings, report the rest."""
    reported = set()
    nk = 0
    mprops = monitor_props or (ctx.pid,)
    for v in viols:
        if v["prop"] not in mprops:
            continue
        if len(reported) >= 3:
            break     # enough distinct violations to report; the rest of this batch need not be triaged
        contexts, sites = viol_context(v["path"], v["c"], v["line"], v["r"], v["prop"])
        kf = match_known(ctx, v["prop"], v["kind"], contexts, sites, v["r"])
        if kf:
            ctx.add_known(kf["id"], kf["what"])
            nk += 1
            continue
        key = (v["kind"],)
        if key in reported:
            continue
        hist = v["path"][:-len(".trace")] + ".history.json"
        # a history determines the execution (one task at a time under the harness scheduler), so a violation must show again
        # when its history is replayed in a fresh process; one that does not is an artefact of the harness's waiting for the
        # gateway to settle on an overloaded host (an output recorded one step late) and is noted, not reported
        if os.path.exists(hist) and not confirm_by_replay(ctx, hist, v):
            ctx.unreproduced = getattr(ctx, "unreproduced", 0) + 1
            ctx.notes.append("monitor %s/%s in %s did not show again when the history was replayed twice: not reported" % (
                v["prop"], v["kind"], os.path.basename(v["path"])))
            continue
        reported.add(key)
        keep = os.path.join(REPLAYS, "%s-%s" % (ctx.pid, os.path.basename(hist)))
        try:
            subprocess.run(["cp", hist, keep])
            subprocess.run(["cp", v["path"], keep[:-len(".history.json")] + ".trace"])
        except Exception:
            pass
        ctx.add_violation("%s: monitor %s/%s on connection %s resource %s at trace line %d (contexts %s)" % (
            ctx.pid, v["prop"], v["kind"], v["c"], v["r"], v["line"], ",".join(contexts) or "-"),
            {"kind": "gw", "history": keep, "violation": v, "contexts": contexts})
    for path, msg in getattr(ctx, "last_crashes", [])[:4]:
        hist = path[:-len(".trace")] + ".history.json"
        # a crash is attributed to a recorded finding by its panic message and the function on top of the stack
        try:
            raw = bytes.fromhex(open(path).read().split("\t", 1)[1].strip()).decode("utf-8", "replace")
        except Exception:
            raw = msg
        kf = None
        for f in ctx.known_db.get("findings", []):
            need = f.get("crash_contains")
            if need and ctx.pid in f.get("properties", []) and all(x in raw for x in need):
                kf = f
        if kf:
            ctx.add_known(kf["id"], kf["what"])
            continue
        keep = os.path.join(REPLAYS, "%s-crash-%s" % (ctx.pid, os.path.basename(hist)))
        subprocess.run(["cp", hist, keep])
        # a dead gateway process holds no property for that history (C15 names it; every other property's history ends
        # there with requests unanswered and clients diverging)
        ctx.add_violation("the gateway process died during history %s: %s" % (os.path.basename(path), msg),
                          {"kind": "gw", "history": keep, "crash": msg})
    if True:
        # a stall (work accepted by a worker queue that no worker will ever run) is confirmed by re-executing the history
        # in a fresh process before it is reported (gwrun); it ends every property's history like a crash does
        for s in stalls[:1]:
            hist = s[:-len(".trace")] + ".history.json"
            keep = os.path.join(REPLAYS, "%s-stall-%s" % (ctx.pid, os.path.basename(hist)))
            subprocess.run(["cp", hist, keep])
            ctx.add_violation("gateway stalled (work pending, no worker runnable) in " + os.path.basename(s),
                              {"kind": "gw", "history": keep, "stall": True})
    return nk


def stage_gw(ctx, profiles, stall_props=("C13", "C15", "C19"), monitor_props=None):
    """Explore histories of the real gateway under the harness scheduler and evaluate the Coq monitors on the traces."""
    rep = {"profiles": {}}
    if ctx.replay:
        payload = json.load(open(ctx.replay)).get("replay", {})
        tdir = os.path.join(ctx.work, "replay")
        rc, out = sh([os.path.join(BUILD, "gwrun"), "-replay", payload["history"], "-out", tdir], timeout=600)
        viols, stats, stalls = run_traces(ctx, tdir)
        triage_gw(ctx, viols, stalls, stall_props, monitor_props)
        ctx.evaluations += 1
        return {"replayed": payload["history"], "violations": [v for v in viols if v["prop"] == ctx.pid]}
    # recorded findings of this property: replay each one's history (deterministic) so that it is reported on
    # every run while it reproduces; a finding that no longer reproduces is noted in the evidence
    kdir = os.path.join(ctx.work, "known")
    rep["known_replays"] = {}
    for f in ctx.known_db.get("findings", []):
        if ctx.pid not in f.get("properties", []) or not f.get("replay", "").endswith(".history.json"):
            continue
        hp = os.path.join(ROOT, f["replay"])
        if not os.path.exists(hp):
            continue
        d = os.path.join(kdir, f["id"])
        rc, out = sh([os.path.join(BUILD, "gwrun"), "-replay", hp, "-out", d], timeout=600)
        if rc != 0:
            rep["known_replays"][f["id"]] = "replay crashed"
            m = re.search(r"(panic:|fatal error:)[^\n]*", out)
            ctx.add_violation("replay of recorded finding %s crashed the gateway/harness: %s" % (f["id"], m.group(0) if m else out[:400]),
                              {"kind": "crash", "history": hp, "log": out[:5000]})
            continue
        if os.path.isdir(d):
            subprocess.run(["cp", hp, os.path.join(d, "replay.history.json")])   # so that a violation found in it has its history
        viols, stats, stalls = run_traces(ctx, d)
        before = len(ctx.known)
        triage_gw(ctx, viols, stalls, stall_props)
        mine = [v for v in viols if v["prop"] == ctx.pid]
        rep["known_replays"][f["id"]] = "reproduces (%d monitor violations of this property)" % len(mine) if mine else "no violation of this property in its replay"
        ctx.evaluations += 1
    # regression corpus: the histories of repaired defects (known_findings.json "fixed" entries suppress nothing) and
    # minimized failures kept from development run first; every monitor of this property is evaluated on them
    cdir = os.path.join(ctx.work, "corpus")
    os.makedirs(cdir, exist_ok=True)
    corpus = sorted(glob.glob(os.path.join(ROOT, "replays", "fixed", "*.history.json")) + glob.glob(os.path.join(ROOT, "corpus", "*.history.json")))
    for hp in corpus:
        d = os.path.join(cdir, os.path.basename(hp)[:-len(".history.json")])
        rc, out = sh([os.path.join(BUILD, "gwrun"), "-replay", hp, "-out", d], timeout=600)
        if rc != 0:
            m = re.search(r"(panic:|fatal error:)[^\n]*", out)
            if ctx.pid in ("C15", "C20"):
                ctx.add_violation("replay of corpus history %s crashed the gateway: %s" % (os.path.basename(hp), m.group(0) if m else out[:400]),
                                  {"kind": "crash", "history": hp, "log": out[:5000]})
            continue
        tp = os.path.join(d, "replay.trace")
        if os.path.exists(tp):
            os.rename(tp, os.path.join(cdir, os.path.basename(hp)[:-len(".history.json")] + ".trace"))
            subprocess.run(["cp", hp, os.path.join(cdir, os.path.basename(hp))])
    if corpus:
        viols, stats, stalls = run_traces(ctx, cdir)
        triage_gw(ctx, viols, stalls, stall_props, monitor_props)
        ctx.evaluations += len(stats)
        rep["corpus"] = {"histories": len(stats), "violations_this_property": sum(1 for v in viols if v["prop"] in (monitor_props or (ctx.pid,)))}
    for name, nq, nt in profiles:
        n = ctx.q(nq, nt)
        if n <= 0:
            continue
        tdir = os.path.join(ctx.work, "traces-" + name)
        rc, out = sh([os.path.join(BUILD, "gwrun"), "-seed", str(ctx.seed), "-n", str(n), "-profile", name, "-out", tdir], timeout=3000)
        if rc != 0:
            m = re.search(r"(panic:|fatal error:)[^\n]*", out)
            ctx.add_violation("gateway harness crashed (the gateway process died or the harness panicked) in profile %s: %s" % (name, m.group(0) if m else out[:600]),
                              {"kind": "crash", "profile": name, "seed": ctx.seed, "log": out[:6000] + "\n...\n" + out[-3000:]})
            rep["profiles"][name] = {"error": out[-800:]}
            continue
        viols, stats, stalls = run_traces(ctx, tdir)
        nk = triage_gw(ctx, viols, stalls, stall_props, monitor_props)
        steps = sum(s["events"] for s in stats)
        nontriv = sum(1 for s in stats if s["frames"] > 4 and s["q"] > 0)
        site_free = sum(1 for s in stats if not s["sites"])
        ctx.evaluations += len(stats)
        ctx.nontrivial += nontriv
        ctx.traces += len(stats)
        rep["profiles"][name] = {"histories": len(stats), "trace_events": steps, "client_frames": sum(s["frames"] for s in stats),
                                 "service_events": sum(s["svc_events"] for s in stats), "quiescent_points": sum(s["q"] for s in stats),
                                 "histories_without_site_marks": site_free, "stalls": len(stalls),
                                 "violations_all_properties": len(viols), "violations_this_property": sum(1 for v in viols if v["prop"] in (monitor_props or (ctx.pid,))),
                                 "attributed_to_known_findings": nk}
        if stats:
            p = stats[0]["path"]
            ls = [l for l in open(p).read().split("\n") if l and not l.startswith(("RAWOUT", "SNAP", "TRUTH"))]
            ctx.sample({"profile": name, "trace_excerpt": ls[:25]}, cap=3)
        subprocess.run(["rm", "-rf", tdir])
    return rep


# ------------------------------------------------------------------ integrated model stage (lock-step)

def run_core(ctx, tdir):
    """Run the extracted integrated model Comp/Core.v in lock-step with the traces of a directory."""
    files = sorted(glob.glob(os.path.join(tdir, "*.trace")))
    ok, diffs, outside, ops, outs = 0, [], [], 0, 0
    cover = {}
    for i in range(0, len(files), 400):
        rc, out = sh([driver_exe(), "core"] + files[i:i + 400], timeout=1800)
        if rc != 0:
            ctx.add_violation("model driver failed: " + out[-1500:], {"kind": "driver", "log": out[-3000:]}, no_input=True)
            return None
        for l in out.splitlines():
            f = l.split("\t")
            if f[0] == "COREOK":
                ok += 1
                ops += int(f[2])
                outs += int(f[3])
            elif f[0] == "COREDIFF":
                diffs.append({"path": f[1], "line": int(f[2]), "op": f[3], "model": f[4], "gateway": f[5] if len(f) > 5 else ""})
            elif f[0] == "COREOUT":
                outside.append({"path": f[1], "line": int(f[2]), "why": f[3] if len(f) > 3 else ""})
            elif f[0] == "CORECOVER":
                cover[f[1]] = cover.get(f[1], 0) + int(f[2])
    return {"ok": ok, "diffs": diffs, "outside": outside, "ops": ops, "outs": outs, "files": len(files), "cover": cover}


def stage_core(ctx, n_quick=300, n_thorough=4000, monitor_props=None):
    """The integrated model of the flat-resource fragment (Comp/Core.v, theorems in Proofs/CoreProofs.v) run in lock-step with
    histories of the real gateway (profile `core`): every stimulus and scheduler grant is one op of the extracted machine and
    what it emits must be what the gateway emitted. The monitors of this property are evaluated on the same traces: when the
    lock-step breaks they are the search for a failing input."""
    rep = {}
    if ctx.replay:
        payload = json.load(open(ctx.replay)).get("replay", {})
        if payload.get("kind") != "core":
            return {"skipped": "replay of another stage"}
        tdir = os.path.join(ctx.work, "replay-core")
        rc, out = sh([os.path.join(BUILD, "gwrun"), "-replay", payload["history"], "-out", tdir], timeout=600)
        r = run_core(ctx, tdir)
        if r and r["diffs"]:
            d = r["diffs"][0]
            ctx.add_violation("core: lock-step broken at trace line %d on %s: model emits [%s], gateway emitted [%s]" % (d["line"], d["op"], d["model"], d["gateway"]),
                              dict(payload), no_input=True)
        ctx.evaluations += 1
        return {"replayed": payload["history"], "lockstep": r}
    n = ctx.q(n_quick, n_thorough)
    tdir = os.path.join(ctx.work, "traces-core")
    rc, out = sh([os.path.join(BUILD, "gwrun"), "-seed", str(ctx.seed), "-n", str(n), "-profile", "core", "-out", tdir], timeout=3000)
    if rc != 0:
        m = re.search(r"(panic:|fatal error:)[^\n]*", out)
        ctx.add_violation("gateway harness crashed in profile core: %s" % (m.group(0) if m else out[:600]),
                          {"kind": "crash", "profile": "core", "seed": ctx.seed, "log": out[:6000] + "\n...\n" + out[-3000:]})
        return {"error": out[-800:]}
    viols, stats, stalls = run_traces(ctx, tdir)
    before = len(ctx.violations)
    nk = triage_gw(ctx, viols, stalls, (), monitor_props)
    found_input = len(ctx.violations) > before
    r = run_core(ctx, tdir)
    if r is None:
        return {"error": "driver"}
    ctx.evaluations += r["files"]
    ctx.nontrivial += sum(1 for s in stats if s["frames"] > 4 and s["q"] > 0)
    ctx.traces += len(stats)
    rep = {"histories": r["files"], "lockstep_ok": r["ok"], "lockstep_diffs": len(r["diffs"]), "outside_the_modelled_fragment": len(r["outside"]),
           "model_ops": r["ops"], "outputs_compared": r["outs"], "monitor_violations_this_property": sum(1 for v in viols if v["prop"] in (monitor_props or (ctx.pid,))),
           "attributed_to_known_findings": nk, "branch_coverage": dict(sorted(r["cover"].items()))}
    if r["outside"]:
        rep["outside_examples"] = r["outside"][:3]
    # a history that leaves the modelled fragment is a harness matter unless the gateway did it (an unexpected request,
    # unsubscription or error log is compared as output, so it shows up as a difference, not here); more than a few are reported
    if len(r["outside"]) > max(3, r["files"] // 20):
        o = r["outside"][0]
        ctx.add_violation("core: %d of %d histories left the fragment modelled by Comp/Core.v (first: %s line %d: %s)" % (
            len(r["outside"]), r["files"], os.path.basename(o["path"]), o["line"], o["why"]), {"kind": "core-profile", "example": o}, no_input=True)
    confirmed = []
    for d in r["diffs"][:6]:
        if confirm_core_by_replay(ctx, d["path"][:-len(".trace")] + ".history.json"):
            confirmed.append(d)
            break
        ctx.notes.append("lock-step difference in %s did not show again when the history was replayed twice: not reported" % os.path.basename(d["path"]))
    rep["lockstep_diffs_not_reproduced"] = len(r["diffs"]) - len(confirmed) if not confirmed else 0
    r["diffs"] = confirmed + [d for d in r["diffs"] if confirmed and d is not confirmed[0]]
    if r["diffs"]:
        d = r["diffs"][0]
        hist = d["path"][:-len(".trace")] + ".history.json"
        keep = os.path.join(REPLAYS, "%s-core-%s" % (ctx.pid, os.path.basename(hist)))
        subprocess.run(["cp", hist, keep])
        subprocess.run(["cp", d["path"], keep[:-len(".history.json")] + ".trace"])
        what = ("core: lock-step correspondence broken (gateway differs from the Coq model Comp/Core.v) in %d of %d histories; first: %s line %d on %s: "
                "model emits [%s], gateway emitted [%s]" % (len(r["diffs"]), r["files"], os.path.basename(d["path"]), d["line"], d["op"], d["model"], d["gateway"]))
        payload = {"kind": "core", "history": keep, "difference": d,
                   "broken": "correspondence Core.kstep = gateway (theorems of Proofs/CoreProofs.v no longer speak about this code)"}
        if found_input:
            # the monitors found a history on which the property itself fails: that violation (with its replay) is already reported
            ctx.notes.append(what)
        else:
            ctx.add_violation(what + "; the monitors of this property found no violating history among them", payload, no_input=True)
    subprocess.run(["rm", "-rf", tdir])
    return rep


# ------------------------------------------------------------------ NATS adapter stage

def stage_nats(ctx, n_quick=300, n_thorough=3000):
    """The real nats.Client over TCP against the in-process fake NATS server; observations vs the Adapter model.
    Exactly-once and early-timeout violations are timing independent and reported at once; a wrong *kind* of
    completion can be a timing artefact of a loaded machine and must persist over three runs."""
    n = ctx.q(n_quick, n_thorough)
    rep = {"runs": []}
    persistent = None
    for attempt in range(3):
        cases = os.path.join(ctx.work, "nats-%d.txt" % attempt)
        rc, out = sh([os.path.join(BUILD, "natsrun"), "-seed", str(ctx.seed + attempt), "-n", str(n), "-out", cases], timeout=600)
        if rc != 0:
            ctx.add_violation("natsrun failed (adapter crashed or could not connect): " + out[-800:], {"kind": "crash", "log": out[-3000:]})
            return rep
        rc, dout = sh([driver_exe(), "pure"], inp=open(cases).read(), timeout=600)
        mism = [l.split("\t")[1:] for l in dout.splitlines() if l.startswith("MISMATCH")]
        spec = [l.split("\t")[1:] for l in dout.splitlines() if l.startswith("SPECFAIL")]
        for l in dout.splitlines():
            f = l.split("\t")
            if f[0] == "SUMMARY":
                ctx.evaluations += int(f[1])
                ctx.nontrivial += int(f[4])
        rep["runs"].append({"requests": n, "mismatches": len(mism), "specfails": len(spec)})
        if attempt == 0:
            for l in open(cases).read().splitlines()[:4]:
                ctx.sample(l)
        for sp in spec[:1]:
            ctx.add_violation("adapter: request with reply behaviour %s completed %s (not exactly once, or a timeout before its deadline)" % (sp[1], sp[-1]),
                              {"kind": "nats", "behaviour": sp[1], "observed": sp[-1], "seed": ctx.seed + attempt})
            return rep
        kinds = set((m[0], m[1]) for m in mism)
        persistent = kinds if persistent is None else (persistent & kinds)
        if not persistent:
            break
    for fn, b in sorted(persistent or []):
        ctx.add_violation("adapter: behaviour %s consistently completes differently from the model in three runs" % b,
                          {"kind": "nats", "function": fn, "behaviour": b, "seed": ctx.seed})
    return rep
