"""Per-property configuration of bin/check: theorem files, harness commands, correspondence stages."""
from vlib import stage_pure

PROPS = {
    "C05": {
        "coq": ["Props/C05.v"],
        "level": "proof",
        "harness": ["purediff"],
        "stages": [("pure", stage_pure, {"suites": ["can_call"], "n_quick": 20000, "n_thorough": 400000})],
        "rule": "structured call lists over a 4-letter alphabet with empty/star entries, action = entry | prefix | suffix | "
                "random | whole list | raw bytes, 10% byte-mutated; non-trivial = list with >= 2 entries; distinct by input",
        "assumptions": ["codec.AccessResult decoding (encoding/json) is not modelled"],
        "technique": "Coq proof (can_call_spec, all strings) + differential correspondence of rescache.Access.CanCall with the extracted model and spec",
        "level_text": "Theorem for all byte strings about the Gallina mirror of the CanCall scanner; the mirror is tied to the code by a differential run on every check",
        "level_note": "trusted: Coq kernel, extraction (ExtrOcamlBasic/ExtrOcamlString), Go harness generators; modelled not verified: encoding/json",
    },
    "C12": {
        "coq": ["Props/C12.v"],
        "level": "proof",
        "harness": ["purediff"],
        "stages": [("pure", stage_pure, {"suites": ["pattern", "lcs", "ressub"], "n_quick": 6000, "n_thorough": 150000})],
        "rule": "patterns/names over a token alphabet with wildcards, invalid tokens and byte mutations (names derived from the pattern "
                "so matches are frequent); all pairs of collections up to length 3 over 2 value classes plus random edit-distance pairs "
                "up to length 10 over <=5 classes of all four value kinds; direct-drive op sequences (events, reset start/answers incl. "
                "notFound, errors, type mismatch) on one real ResourceSubscription; non-trivial = valid pattern / non-empty diff / "
                "sequence that emitted an event; distinct by input",
        "assumptions": ["encoding/json decoding of payloads is exercised but not modelled", "fan-out of resets over the cache map (forEachMatch) is checked on implementation traces only (gwrun)"],
        "technique": "Coq proofs (wildcard matcher = token matching; lcs edit script patches a into b for an arbitrary table; unchanged => no event) + differential correspondence of ParseResourcePattern/Match, lcs and the reset path of a real ResourceSubscription with the extracted models",
        "level_text": "Unbounded theorems about Gallina mirrors of the matcher and the diff routine, tied to the code by differential runs (pure functions) and direct-drive op sequences (reset handling) on every check",
        "level_note": "trusted: Coq kernel, extraction, Go harness generators and the verif-tagged exports VerifLcs/VerifRS; modelled not verified: encoding/json",
    },
    "C14": {
        "coq": ["Props/C14.v"],
        "level": "proof",
        "harness": ["purediff"],
        "stages": [("pure", stage_pure, {"suites": ["valid_rid", "dispatch", "httppath"], "n_quick": 8000, "n_thorough": 200000})],
        "rule": "all 256 bytes in 4 positions for IsValidRID/IsValidRIDPart; dotted strings over a token alphabet with control bytes, "
                "wildcards, invalid UTF-8, {cid}, queries, byte mutations; WebSocket method strings through the real rpc.HandleRequest with "
                "a recording requester; HTTP paths with percent-escapes of every byte under 4 apiPath prefixes; non-trivial = accepted input",
        "assumptions": ["net/url PathEscape/PathUnescape are modelled (HttpPath.v) and differential-tested, not verified", "encoding/json replaces invalid UTF-8 in method strings before the gateway sees them"],
        "technique": "Coq proof (accepted resource ids give clean subject tokens, all byte strings) + differential correspondence of IsValidRID, IsValidRIDPart, HandleRequest's method split, PathToRID(Action), RIDToPath with the extracted models",
        "level_text": "Unbounded theorem about the Gallina mirror of the validator; dispatcher and path mapping tied by differential runs with a spec check on the implementation's own output (forwarded parts must be subject-clean and re-assemble to the input)",
        "level_note": "trusted: Coq kernel, extraction, Go harness; modelled not verified: net/url, encoding/json",
    },
    "C17": {
        "coq": ["Props/C17.v"],
        "level": "proof",
        "harness": ["purediff"],
        "stages": [("pure", stage_pure, {"suites": ["status", "origin", "header"], "n_quick": 8000, "n_thorough": 200000})],
        "rule": "all defined error codes + unknown codes; every status -5..1023 for statusError / IsDirectResponseStatus / IsValidStatus "
                "(exhaustive over that range); allow-lists accepted by the configuration validator against origins in mixed case, with "
                "ports, non-ASCII and invalid UTF-8 and byte mutations; meta headers in random letter case incl. all protected names, "
                "multi-valued, merged into random response headers; non-trivial = match / non-empty meta",
        "assumptions": ["textproto.CanonicalMIMEHeaderKey is modelled for valid header tokens only", "net/http response writing is not modelled"],
        "technique": "Coq proofs (status tables for all integers/codes) + differential correspondence of errorStatus, statusError, Meta status predicates, matchesOrigins, Canonicalize+MergeHeader with the extracted models and spec checks",
        "level_text": "Table theorems for all Z and all codes; header merge and origin matching tied by differential runs with spec checks on the implementation's own output",
        "level_note": "trusted: Coq kernel, extraction, Go harness; modelled not verified: net/textproto, net/http",
    },
    "C19": {
        "coq": ["Props/C19.v"],
        "level": "proof",
        "harness": ["purediff"],
        "stages": [("pure", stage_pure, {"suites": ["throttle"], "n_quick": 3000, "n_thorough": 40000})],
        "rule": "random Add/Done sequences on the real rescache.Throttle for limits 1..4 (Done mostly within the call contract, 8% outside "
                "it to exercise the panic branch); observed: which starters ran after each call; non-trivial = more than 2 calls",
        "assumptions": ["goroutine scheduling of `go cb()` is observed with a bounded wait, not modelled"],
        "technique": "Coq proof (bound, FIFO progress, no panic under the call contract, all op sequences) + differential correspondence of the real Throttle with the extracted step function",
        "level_text": "Unbounded invariant proof on the throttle machine tied to the code by op-sequence differential; the system-level bound is checked on implementation traces (gwrun)",
        "level_note": "trusted: Coq kernel, extraction, Go harness timing (2 s wait for a released starter)",
    },
}
