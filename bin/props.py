"""Per-property configuration of bin/check: theorem files, harness commands, correspondence stages."""
from vlib import stage_pure, stage_gw, stage_nats, stage_core

PROPS = {
    "C05": {
        "coq": ["Props/C05.v"],
        "level": "proof",
        "harness": ["purediff", "gwrun"],
        "stages": [("pure", stage_pure, {"suites": ["can_call"], "n_quick": 20000, "n_thorough": 400000}),
                   ("subfsm", stage_pure, {"suites": ["subfsm"], "n_quick": 3000, "n_thorough": 80000, "widen": 1}),
                   ("gw", stage_gw, {"profiles": [("access", 500, 6000), ("scacc", 500, 4000), ("accrefs", 300, 3000), ("http", 400, 3000)]})],
        "rule": "structured call lists over a 4-letter alphabet with empty/star entries, action = entry | prefix | suffix | "
                "random | whole list | raw bytes, 10% byte-mutated; non-trivial = list with >= 2 entries; distinct by input",
        "assumptions": ["codec.AccessResult decoding (encoding/json) is not modelled"],
        "technique": "Coq proof (can_call_spec, all strings) + differential correspondence of rescache.Access.CanCall with the extracted model and spec",
        "level_text": "Theorem for all byte strings about the Gallina mirror of the CanCall scanner; the mirror is tied to the code by a differential run on every check",
        "level_note": "trusted: Coq kernel, extraction (ExtrOcamlBasic/ExtrOcamlString), Go harness generators; modelled not verified: encoding/json",
    },
    "C12": {
        "coq": ["Props/C12.v"],
        "level": "proof",
        "harness": ["purediff", "gwrun"],
        "stages": [("pure", stage_pure, {"suites": ["pattern", "lcs", "ressub"], "n_quick": 6000, "n_thorough": 150000}),
                   ("gw", stage_gw, {"profiles": [("reset", 600, 6000), ("resetf", 300, 2500), ("accchurn", 200, 2000), ("scthr1", 250, 2000), ("thr2", 150, 1500), ("resetdel", 300, 2500)],
                                     "monitor_props": ("C12", "C01")})],
        "rule": "patterns/names over a token alphabet with wildcards, invalid tokens and byte mutations (names derived from the pattern "
                "so matches are frequent); all pairs of collections up to length 3 over 2 value classes plus random edit-distance pairs "
                "up to length 10 over <=5 classes of all four value kinds; direct-drive op sequences (events, reset start/answers incl. "
                "notFound, errors, type mismatch) on one real ResourceSubscription; non-trivial = valid pattern / non-empty diff / "
                "sequence that emitted an event; distinct by input",
        "assumptions": ["encoding/json decoding of payloads is exercised but not modelled", "fan-out of resets over the cache map (forEachMatch) is checked on implementation traces only (gwrun)"],
        "technique": "Coq proofs (wildcard matcher = token matching; lcs edit script patches a into b for an arbitrary table; unchanged => no event) + differential correspondence of ParseResourcePattern/Match, lcs and the reset path of a real ResourceSubscription with the extracted models",
        "level_text": "Unbounded theorems about Gallina mirrors of the matcher and the diff routine, tied to the code by differential runs (pure functions) and direct-drive op sequences (reset handling) on every check",
        "level_note": "trusted: Coq kernel, extraction, Go harness generators and the verif-tagged exports VerifLcs/VerifRS; modelled not verified: encoding/json",
    },
    "C14": {
        "coq": ["Props/C14.v"],
        "level": "proof",
        "harness": ["purediff", "gwrun"],
        "stages": [("pure", stage_pure, {"suites": ["valid_rid", "dispatch", "httppath"], "n_quick": 8000, "n_thorough": 200000}),
                   ("subjects", stage_pure, {"suites": ["subjects"], "n_quick": 600, "n_thorough": 6000}),
                   ("gw", stage_gw, {"profiles": [("http", 500, 4000)]})],
        "rule": "all 256 bytes in 4 positions for IsValidRID/IsValidRIDPart; dotted strings over a token alphabet with control bytes, "
                "wildcards, invalid UTF-8, {cid}, queries, byte mutations; WebSocket method strings through the real rpc.HandleRequest with "
                "a recording requester; HTTP paths with percent-escapes of every byte under 4 apiPath prefixes; non-trivial = accepted input",
        "assumptions": ["net/url PathEscape/PathUnescape are modelled (HttpPath.v) and differential-tested, not verified", "encoding/json replaces invalid UTF-8 in method strings before the gateway sees them"],
        "technique": "Coq proof (accepted resource ids give clean subject tokens, all byte strings) + differential correspondence of IsValidRID, IsValidRIDPart, HandleRequest's method split, PathToRID(Action), RIDToPath with the extracted models",
        "level_text": "Unbounded theorem about the Gallina mirror of the validator; dispatcher and path mapping tied by differential runs with a spec check on the implementation's own output (forwarded parts must be subject-clean and re-assemble to the input)",
        "level_note": "trusted: Coq kernel, extraction, Go harness; modelled not verified: net/url, encoding/json",
    },
    "C17": {
        "coq": ["Props/C17.v"],
        "level": "proof",
        "harness": ["purediff", "gwrun"],
        "stages": [("pure", stage_pure, {"suites": ["status", "origin", "header"], "n_quick": 8000, "n_thorough": 200000}),
                   ("gw", stage_gw, {"profiles": [("http", 700, 5000)]})],
        "rule": "all defined error codes + unknown codes; every status -5..1023 for statusError / IsDirectResponseStatus / IsValidStatus "
                "(exhaustive over that range); allow-lists accepted by the configuration validator against origins in mixed case, with "
                "ports, non-ASCII and invalid UTF-8 and byte mutations; meta headers in random letter case incl. all protected names, "
                "multi-valued, merged into random response headers; non-trivial = match / non-empty meta",
        "assumptions": ["textproto.CanonicalMIMEHeaderKey is modelled for valid header tokens only", "net/http response writing is not modelled (responses are observed through a response recorder)"],
        "technique": "Coq proofs (status tables for all integers/codes) + differential correspondence of errorStatus, statusError, Meta status predicates, matchesOrigins, Canonicalize+MergeHeader with the extracted models and spec checks",
        "level_text": "Table theorems for all Z and all codes; header merge and origin matching tied by differential runs with spec checks on the implementation's own output",
        "level_note": "trusted: Coq kernel, extraction, Go harness; modelled not verified: net/textproto, net/http",
    },
    "C19": {
        "coq": ["Props/C19.v"],
        "level": "proof",
        "harness": ["purediff", "gwrun"],
        "stages": [("pure", stage_pure, {"suites": ["throttle"], "n_quick": 3000, "n_thorough": 40000}),
                   ("gw", stage_gw, {"profiles": [("scthr1", 400, 3000), ("scthr2", 300, 2000), ("scdisct", 300, 3000), ("thr1", 250, 3000), ("thr2", 150, 2000)], "monitor_props": ("C19", "C06", "C12")})],
        "rule": "random Add/Done sequences on the real rescache.Throttle for limits 1..4 (Done mostly within the call contract, 8% outside "
                "it to exercise the panic branch); observed: which starters ran after each call, checked against min(added, done+limit) and Add order; "
                "histories of the real gateway with resetThrottle = referenceThrottle = 1 and 2: system resets over reference graphs with re-access, "
                "denials and disconnects while throttled requests wait; non-trivial = more than 2 calls / more than 4 frames",
        "assumptions": ["goroutine scheduling of `go cb()` is observed with a bounded wait, not modelled"],
        "technique": "Coq proof (bound, FIFO progress, no panic under the call contract, all op sequences) + differential correspondence of the real Throttle with the extracted step function",
        "level_text": "Unbounded invariant proof on the throttle machine tied to the code by op-sequence differential; at system level the Coq monitor checks on scheduled traces with resetThrottle = 1 and 2 that the re-fetches of one system reset never exceed the limit and that no governed request (re-fetch, re-access) is left unsent at quiescence",
        "level_note": "trusted: Coq kernel, extraction, Go harness timing (2 s wait for a released starter)",
    },
    "C01": {
        "coq": ["Props/C01.v"],
        "level": "proof",
        "harness": ["gwrun", "purediff"],
        "stages": [("core", stage_core, {"n_quick": 1500, "n_thorough": 20000}),
                   ("pure", stage_pure, {"suites": ["ressub"], "n_quick": 4000, "n_thorough": 60000}),
                   ("gw", stage_gw, {"profiles": [("basic", 150, 1000), ("refs", 350, 3000), ("churn", 350, 3000), ("access", 200, 1500), ("scacc", 250, 2000), ("reset", 250, 1500), ("accrefs", 200, 1500), ("query", 150, 1000), ("legacy", 250, 2000), ("legacyacc", 150, 1000), ("scgraph", 250, 2000), ("resetf", 250, 2000), ("scthr1", 150, 1500), ("wild", 0, 1500)]})],
        "rule": "random histories of the real gateway under the harness scheduler (every connection task, cache task and hooked goroutine "
                "granted one at a time): 2 clients, 3-4 resources with reference graphs (sharing, cycles, self references), "
                "subscribe/unsubscribe/get, service change/add/remove/custom events made unique by a fresh tag, answers in any order; "
                "the Coq monitor (Spec/Monitors.v) rebuilds each client's copy from frames and compares it with the service truth at every "
                "quiescent point; non-trivial = more than 4 client frames and at least one quiescent point; plus direct-drive op sequences on one cached resource; plus the `core` stage: 1,500 (20,000) histories of the real gateway inside the fragment of Comp/Core.v (3 clients, one flat model or collection, subscribe / unsubscribe with counts and parameter variants, access verdicts drawn per connection and token, token and reaccess events, change / add / remove / custom events incl. partly ineffective changes, disconnects, random interleaving of every stimulus with every grant), each run in lock-step with the extracted machine: every output compared; 43 branches of the machine counted",
        "assumptions": ["consistent service: answers come from the truth at answer time, every mutation of a subscribed resource is announced by an event, per-resource order is preserved",
                        "WebSocket clients negotiate 1.2.1, 1.2.0, 1.1.1 or send no version request (legacy profiles); the legacy call/auth response format of 1.1.1 is not exercised"],
        "technique": "Theorems over every sequence of stimuli and scheduler grants on the integrated model Comp/Core.v (connections x one flat resource, both task queues; built on Comp/Conv.v), run in LOCK-STEP with the real gateway on explored histories (every output compared) + Coq proof (single-resource convergence over all schedules, Comp/Conv.v; cache-side model ResSub) + Coq monitor `monitor` (extracted) evaluated on scheduled traces of the real gateway + direct-drive correspondence of the cache side",
        "level_text": "For the slice of Comp/Core.v the property is a theorem about every history (client copy rebuilt from frames = service state at quiescence; two premises, each shown necessary by a refuting history) and the machine is tied to the code by lock-step; the single-resource core (Conv) is proved for all schedules; beyond the slice (references) the statement is the extracted Coq monitor evaluated on explored histories of the real code",
        "level_note": "trusted: Coq kernel, extraction, the harness (mock messaging system, consistent mock service, scheduler hooks, frame abstraction in harness/internal/gw); task atomicity (DESIGN section 4); modelled not verified: encoding/json, gorilla/websocket",
    },
    "C02": {
        "coq": ["Props/C02.v"],
        "level": "proof",
        "harness": ["gwrun", "purediff"],
        "stages": [("pure", stage_pure, {"suites": ["gc"], "n_quick": 3000, "n_thorough": 60000, "widen": 1}),
                   ("gw", stage_gw, {"profiles": [("refs", 400, 4000), ("churn", 400, 4000), ("accrefs", 300, 2000), ("reset", 250, 1500), ("access", 200, 1000), ("legacy", 200, 1500), ("scgraph", 300, 2500), ("gets", 0, 1500), ("wild", 0, 1500)]})],
        "rule": "as C01 with reference-changing events and unsubscribes; the reference client (Spec/Client.v) retains what is reachable from "
                "direct subscriptions and outstanding subscribe/get requests; after every frame: no dangling reference, no event for an "
                "unheld resource, right kind, index in range; non-trivial = more than 4 client frames and a quiescent point; plus the real collector "
                "(removeCount/tryDelete/Dispose/Unsend) on synthetic graphs of 2-6 nodes with sharing, cycles and self references, chains of up to 3 releases",
        "assumptions": ["a client counts an outstanding subscribe/get request as a subscription until it is answered (as ResClient does)"],
        "technique": "Coq proof (collector model Comp/Gc.v: directly subscribed resources are never collected; the sent-count invariant is refuted with the recorded finding as witness) + direct-drive correspondence of the real collector (VerifGC) with the extracted model on synthetic graphs + Coq monitor (reference client with reachability retention, extracted) evaluated on scheduled traces of the real gateway",
        "level_text": "The property is stated as a decidable Coq predicate over observable traces and evaluated on explored histories of the real code; violations are replayable histories",
        "level_note": "trusted: Coq kernel, extraction, the harness (mock messaging system, consistent mock service, scheduler hooks, frame abstraction in harness/internal/gw); task atomicity (DESIGN section 4); modelled not verified: encoding/json, gorilla/websocket",
    },
    "C03": {
        "coq": ["Props/C03.v"],
        "level": "proof",
        "harness": ["gwrun"],
        "stages": [("core", stage_core, {"n_quick": 1500, "n_thorough": 20000}),
                   ("gw", stage_gw, {"profiles": [("basic", 200, 2000), ("refs", 300, 3000), ("churn", 300, 3000), ("access", 250, 2000), ("scacc", 250, 2000), ("reset", 300, 2000), ("accrefs", 200, 1500), ("legacy", 200, 1500), ("scgraph", 250, 2000), ("resetf", 300, 2500), ("resetdel", 300, 2500), ("wild", 0, 1500)]})],
        "rule": "as C01; every service event carries a unique tag; per client and resource the delivered events must be a contiguous run "
                "of the service stream (candidate-position tracking, no false alarm on repeated identical events), nothing missing at quiescence; plus the `core` stage: 1,500 (20,000) histories of the real gateway inside the fragment of Comp/Core.v (3 clients, one flat model or collection, subscribe / unsubscribe with counts and parameter variants, access verdicts drawn per connection and token, token and reaccess events, change / add / remove / custom events incl. partly ineffective changes, disconnects, random interleaving of every stimulus with every grant), each run in lock-step with the extracted machine: every output compared; 43 branches of the machine counted",
        "assumptions": ["no resets/query events in this stage (superseded events are not exercised)"],
        "technique": "Theorems over every sequence of stimuli and scheduler grants on the integrated model Comp/Core.v (connections x one flat resource, both task queues; built on Comp/Conv.v), run in LOCK-STEP with the real gateway on explored histories (every output compared) + Coq proof (Conv.v: replay invariant of queued events) + Coq monitor for ordered, gap-free, duplicate-free delivery evaluated on scheduled traces of the real gateway",
        "level_text": "For the slice of Comp/Core.v: the frames delivered to a client rebuild exactly its subscription's copy at every moment, and Conv's replay invariant holds in every reachable state (theorems, machine tied by lock-step); beyond the slice the end-to-end statement is the extracted monitor on explored histories",
        "level_note": "trusted: Coq kernel, extraction, the harness (mock messaging system, consistent mock service, scheduler hooks, frame abstraction in harness/internal/gw); task atomicity (DESIGN section 4); modelled not verified: encoding/json, gorilla/websocket",
    },
    "C07": {
        "coq": ["Props/C07.v"],
        "level": "proof",
        "harness": ["gwrun", "purediff"],
        "stages": [("core", stage_core, {"n_quick": 1500, "n_thorough": 20000}),
                   ("pure", stage_pure, {"suites": ["dispatch"], "n_quick": 4000, "n_thorough": 80000}),
                   ("subfsm", stage_pure, {"suites": ["subfsm"], "n_quick": 3000, "n_thorough": 80000, "widen": 1}),
                   ("gw", stage_gw, {"profiles": [("basic", 200, 2000), ("refs", 200, 2500), ("churn", 300, 3000), ("access", 300, 2500), ("scacc", 300, 2500), ("reset", 200, 1500), ("accrefs", 200, 1500), ("http", 250, 2000), ("scthr1", 400, 3000), ("scthr2", 200, 1500), ("wild", 0, 1500)]})],
        "rule": "as C01; response ledger: every response matches exactly one outstanding request id of that connection, nothing outstanding at quiescence; "
                "plus the dispatcher differential (exactly one immediate reply or one requester call per method string); plus the `core` stage: 1,500 (20,000) histories of the real gateway inside the fragment of Comp/Core.v (3 clients, one flat model or collection, subscribe / unsubscribe with counts and parameter variants, access verdicts drawn per connection and token, token and reaccess events, change / add / remove / custom events incl. partly ineffective changes, disconnects, random interleaving of every stimulus with every grant), each run in lock-step with the extracted machine: every output compared; 43 branches of the machine counted",
        "assumptions": [],
        "technique": "Theorems over every sequence of stimuli and scheduler grants on the integrated model Comp/Core.v (connections x one flat resource, both task queues; built on Comp/Conv.v), run in LOCK-STEP with the real gateway on explored histories (every output compared) + Coq proof (dispatcher: forwarded or invalidRequest; subscription machine: for every operation sequence no request continuation runs twice and only registered ones run) + direct-drive correspondence of one real Subscription (VerifSub) + Coq response-ledger monitor evaluated on scheduled traces of the real gateway",
        "level_text": "For the slice of Comp/Core.v: no id answered twice, only requested ids, every request answered or its continuation dropped with its subscription (theorem; 'every request answered' refuted = KF-PENDING-DROPPED), machine tied by lock-step; dispatcher totality proved; beyond the slice the exactly-one-response statement is the extracted monitor on explored histories",
        "level_note": "trusted: Coq kernel, extraction, the harness (mock messaging system, consistent mock service, scheduler hooks, frame abstraction in harness/internal/gw); task atomicity (DESIGN section 4); modelled not verified: encoding/json, gorilla/websocket",
    },
    "C08": {
        "coq": ["Props/C08.v"],
        "level": "proof",
        "harness": ["gwrun"],
        "stages": [("core", stage_core, {"n_quick": 1500, "n_thorough": 20000}),
                   ("gw", stage_gw, {"profiles": [("basic", 300, 2500), ("churn", 400, 3000), ("access", 250, 2000), ("scacc", 250, 2000), ("accrefs", 200, 1500), ("reset", 200, 1500), ("sclimit", 4, 20), ("gets", 0, 1500), ("wild", 0, 1500)]})],
        "rule": "as C01 with unsubscribe counts (absent, 0, negative, 1..3) and failing gets; ledger driven only by observable successes predicts every "
                "unsubscribe outcome and is compared with the gateway's own direct counts (introspection) at every quiescent point; plus the `core` stage: 1,500 (20,000) histories of the real gateway inside the fragment of Comp/Core.v (3 clients, one flat model or collection, subscribe / unsubscribe with counts and parameter variants, access verdicts drawn per connection and token, token and reaccess events, change / add / remove / custom events incl. partly ineffective changes, disconnects, random interleaving of every stimulus with every grant), each run in lock-step with the extracted machine: every output compared; 43 branches of the machine counted",
        "assumptions": [],
        "technique": "Theorems over every sequence of stimuli and scheduler grants on the integrated model Comp/Core.v (connections x one flat resource, both task queues; built on Comp/Conv.v), run in LOCK-STEP with the real gateway on explored histories (every output compared) + Coq direct-subscription ledger monitor (extracted) evaluated on scheduled traces of the real gateway, cross-checked against verif-tagged introspection of the gateway's counters",
        "level_text": "For the slice of Comp/Core.v: gateway count = client's own count + waiting requests, unsubscribe outcome table in every reachable state, nothing left behind by failed or given-up subscriptions (theorems for every history, machine tied by lock-step; the equation refuted without its premise = KF-PENDING-DROPPED); beyond the slice the accounting rule is a decidable Coq predicate evaluated on explored histories",
        "level_note": "trusted: Coq kernel, extraction, the harness (mock messaging system, consistent mock service, scheduler hooks, frame abstraction in harness/internal/gw); task atomicity (DESIGN section 4); modelled not verified: encoding/json, gorilla/websocket",
    },
    "C04": {
        "coq": ["Props/C04.v"],
        "level": "proof",
        "harness": ["gwrun", "purediff"],
        "stages": [("core", stage_core, {"n_quick": 1500, "n_thorough": 20000}),
                   ("pure", stage_pure, {"suites": ["can_get"], "n_quick": 10, "n_thorough": 10}),
                   ("subfsm", stage_pure, {"suites": ["subfsm"], "n_quick": 4000, "n_thorough": 80000, "widen": 1}),
                   ("gw", stage_gw, {"profiles": [("access", 500, 6000), ("scacc", 500, 4000), ("accrefs", 300, 3000), ("http", 400, 3000), ("basic", 100, 1200), ("wild", 0, 1000)],
                                     # "left with no direct subscription" after a refused, failed or timed-out access request is decided by the
                                     # direct-count ledger of C08
                                     "monitor_props": ("C04", "C08")})],
        "rule": "histories with a consistent access policy per (token, resource) that changes only together with a reaccess event, token event or "
                "system reset; every access outcome (grant, get:false, accessDenied, internal error, timeout); subscribe/get/call/auth with "
                "resource responses, concurrent requests on one resource; monitor: every data delivery for a directly requested resource needs an "
                "answered get grant for that connection and resource requested after every invalidation that had been followed by a quiescent point; plus the `core` stage: 1,500 (20,000) histories of the real gateway inside the fragment of Comp/Core.v (3 clients, one flat model or collection, subscribe / unsubscribe with counts and parameter variants, access verdicts drawn per connection and token, token and reaccess events, change / add / remove / custom events incl. partly ineffective changes, disconnects, random interleaving of every stimulus with every grant), each run in lock-step with the extracted machine: every output compared; 43 branches of the machine counted",
        "assumptions": ["an invalidation counts as having reached the gateway once a quiescent point followed it (the gateway's own processing order inside a busy period is not observable)"],
        "technique": "Theorems over every sequence of stimuli and scheduler grants on the integrated model Comp/Core.v (connections x one flat resource, both task queues; built on Comp/Conv.v), run in LOCK-STEP with the real gateway on explored histories (every output compared) + Coq proof (CanGet verdict table; transient errors never cached; on the subscription machine a handled trigger drops the cached verdict, arms the guard and leaves a validating request outstanding - the stronger 'sent after the trigger' is refuted with the recorded finding as witness) + direct-drive correspondence of one real Subscription (VerifSub) with the extracted machine + Coq access-gating monitor (Spec/AccessMon.v, extracted) evaluated on scheduled traces of the real gateway incl. HTTP requests + differential of Access.CanGet",
        "level_text": "For the slice of Comp/Core.v: data reaches a connection only after a get grant for one of its subscriptions (theorem for every history, machine tied by lock-step); verdict logic proved; beyond the slice (references, calls, HTTP) the gating statement is a decidable Coq predicate evaluated on explored histories",
        "level_note": "trusted: Coq kernel, extraction, the harness (mock messaging system, consistent mock service, scheduler hooks, frame abstraction in harness/internal/gw); task atomicity (DESIGN section 4); modelled not verified: encoding/json, gorilla/websocket",
    },
    "C06": {
        "coq": ["Props/C06.v"],
        "level": "proof",
        "harness": ["gwrun", "purediff"],
        "stages": [("core", stage_core, {"n_quick": 1500, "n_thorough": 20000}),
                   ("subfsm", stage_pure, {"suites": ["subfsm"], "n_quick": 4000, "n_thorough": 80000, "widen": 1}),
                   ("gw", stage_gw, {"profiles": [("access", 600, 6000), ("scacc", 500, 4000), ("reset", 300, 3000), ("accrefs", 300, 3000), ("scthr1", 250, 2000), ("scdisct", 200, 1500)]})],
        "rule": "as C04 with token events on connections with and without a token, reaccess events, system resets with access patterns, triggers injected "
                "while loading, while events are queued and while an earlier check is pending; monitor: every trigger is followed (by the next quiescent "
                "point) by an access request with a current token for each affected direct subscription, a non-grant verdict by an unsubscribe event, and "
                "no uniquely tagged event that reached the gateway after the trigger is delivered before the verdict; plus the `core` stage: 1,500 (20,000) histories of the real gateway inside the fragment of Comp/Core.v (3 clients, one flat model or collection, subscribe / unsubscribe with counts and parameter variants, access verdicts drawn per connection and token, token and reaccess events, change / add / remove / custom events incl. partly ineffective changes, disconnects, random interleaving of every stimulus with every grant), each run in lock-step with the extracted machine: every output compared; 43 branches of the machine counted",
        "assumptions": [],
        "technique": "Theorems over every sequence of stimuli and scheduler grants on the integrated model Comp/Core.v (connections x one flat resource, both task queues; built on Comp/Conv.v), run in LOCK-STEP with the real gateway on explored histories (every output compared) + Coq proof (subscription machine, every state: a pending re-check blocks every event, a busy subscription defers the trigger, a non-grant verdict revokes all direct subscriptions with one event and delivers nothing held; counter machine; verdict table) + direct-drive correspondence of one real Subscription (VerifSub) with the extracted machine + Coq revocation monitor (extracted) evaluated on scheduled traces of the real gateway",
        "level_text": "For the slice of Comp/Core.v: a token event starts or defers the re-validation and events are held until the verdict, a non-grant verdict revokes with one unsubscribe event, nothing is pending at quiescence (theorems for every history, machine tied by lock-step); subscription machine and counter logic proved; system resets and references are monitor-evaluated",
        "level_note": "trusted: Coq kernel, extraction, the harness (mock messaging system, consistent mock service, scheduler hooks, frame abstraction in harness/internal/gw); task atomicity (DESIGN section 4); modelled not verified: encoding/json, gorilla/websocket",
    },
    "C09": {
        "coq": ["Props/C09.v"],
        "level": "proof",
        "harness": ["gwrun", "purediff"],
        "stages": [("pure", stage_pure, {"suites": ["ressub"], "n_quick": 3000, "n_thorough": 60000}),
                   ("core", stage_core, {"n_quick": 1500, "n_thorough": 20000}),
                   ("gw", stage_gw, {"profiles": [("churn", 600, 5000), ("long", 300, 2000), ("scdisc", 400, 3000), ("http", 250, 2000), ("basic", 150, 1000), ("resetdel", 400, 3000)]})],
        "rule": "histories with disconnects, evictions fired at arbitrary moments, failing gets, delete events, resource ids around the control-line limit; "
                "ending with every client gone and every eviction timer fired; monitor at each quiescent point (introspection): use count = subscribers, "
                "unused <-> queued for eviction, entries = event subscriptions, every get under a standing subscription, data served only after a fetch under "
                "the standing subscription, nothing left at the end; plus the `core` stage: 1,500 (20,000) histories of the real gateway inside the fragment of Comp/Core.v (3 clients, one flat model or collection, subscribe / unsubscribe with counts and parameter variants, access verdicts drawn per connection and token, token and reaccess events, change / add / remove / custom events incl. partly ineffective changes, disconnects, random interleaving of every stimulus with every grant), each run in lock-step with the extracted machine: every output compared; 43 branches of the machine counted",
        "assumptions": ["the eviction delay is replaced by an explicit driver action (VerifEvict fires the timer of a queued entry)"],
        "technique": "Theorems over every sequence of stimuli and scheduler grants on the integrated model Comp/Core.v (connections x one flat resource, both task queues; built on Comp/Conv.v), run in LOCK-STEP with the real gateway on explored histories (every output compared) + Coq proof (use-count / eviction machine, all op sequences, Comp/UseCount.v) + Coq cache life-cycle monitor (extracted) on scheduled traces with verif-tagged introspection",
        "level_text": "Entry machine proved for all operation sequences; for the slice of Comp/Core.v the get request is sent at most once and only under the event subscription (theorem, lock-step); tied to the code by the monitor comparing the gateway's own counters (introspection) on explored histories and by the direct drive of one real ResourceSubscription",
        "level_note": "trusted: Coq kernel, extraction, the harness (mock messaging system, consistent mock service, scheduler hooks, frame abstraction in harness/internal/gw); task atomicity (DESIGN section 4); modelled not verified: encoding/json, gorilla/websocket",
    },
    "C10": {
        "coq": ["Props/C10.v"],
        "level": "proof",
        "harness": ["gwrun", "purediff"],
        "stages": [("core", stage_core, {"n_quick": 1500, "n_thorough": 20000}),
                   ("pure", stage_pure, {"suites": ["expand_cid"], "n_quick": 3000, "n_thorough": 50000}),
                   ("subjects", stage_pure, {"suites": ["subjects"], "n_quick": 600, "n_thorough": 6000}),
                   ("gw", stage_gw, {"profiles": [("access", 500, 4000), ("scacc", 500, 4000), ("churn", 250, 2000), ("accrefs", 200, 2000), ("http", 250, 2000)]})],
        "rule": "multi-connection histories with distinct tokens; monitor: no frame to a client contains any connection id, every service request made by "
                "connection c's worker carries c's id and a token of c in effect since the last quiescent point; differential of the {cid} expansion",
        "assumptions": ["services never put connection ids into payloads (the mock does not)"],
        "technique": "Theorems on the integrated model Comp/Core.v run in lock-step with the real gateway (a task of connection c addresses c only; every access request is for one of c's Subscription objects and carries c's own token; a token changes only by the connection's own token events) + Coq proof ({cid} expansion leaves ids without braces unchanged; token-reset filter) + Coq isolation monitor (extracted) on scheduled traces + differential of ExpandCID",
        "level_text": "Construction lemmas proved; the isolation statement is a decidable Coq predicate evaluated on explored multi-connection histories",
        "level_note": "trusted: Coq kernel, extraction, the harness (mock messaging system, consistent mock service, scheduler hooks, frame abstraction in harness/internal/gw); task atomicity (DESIGN section 4); modelled not verified: encoding/json, gorilla/websocket",
    },
    "C11": {
        "coq": ["Props/C11.v"],
        "level": "proof",
        "harness": ["gwrun"],
        "stages": [("core", stage_core, {"n_quick": 1500, "n_thorough": 20000}),
                   ("gw", stage_gw, {"profiles": [("churn", 500, 6000), ("accchurn", 300, 4000), ("scdisc", 500, 4000), ("scdisct", 400, 3000), ("scthr1", 200, 1500), ("http", 300, 2500), ("wild", 0, 1500)],
                                     "monitor_props": ("C11", "C09", "C19")})],
        "rule": "disconnect injected at random steps with requests, loads, access checks and queued events outstanding, late answers delivered afterwards; "
                "monitor at the next quiescent point: no subscription, no conn-event subscription left for the connection, use counts equal remaining "
                "subscribers, and no service request on its behalf afterwards; plus the `core` stage: 1,500 (20,000) histories of the real gateway inside the fragment of Comp/Core.v (3 clients, one flat model or collection, subscribe / unsubscribe with counts and parameter variants, access verdicts drawn per connection and token, token and reaccess events, change / add / remove / custom events incl. partly ineffective changes, disconnects, random interleaving of every stimulus with every grant), each run in lock-step with the extracted machine: every output compared; 43 branches of the machine counted",
        "assumptions": ["HTTP requests are driven through the handler function with a response recorder (no net/http server)"],
        "technique": "Theorems over every sequence of stimuli and scheduler grants on the integrated model Comp/Core.v (connections x one flat resource, both task queues; built on Comp/Conv.v), run in LOCK-STEP with the real gateway on explored histories (every output compared) + Coq proof (use count stays the number of users under any release order; late release absorbed) + Coq cleanup monitor (extracted) on scheduled traces with introspection",
        "level_text": "For the slice of Comp/Core.v: after a connection's disposal task nothing is sent to it or requested on its behalf, and every Subscription object of a closed connection is released by the cache once the queues drain (theorems for every history incl. disconnects at any moment, lock-step); use-count machine proved; beyond the slice the cleanup statement is monitor-evaluated with introspection",
        "level_note": "trusted: Coq kernel, extraction, the harness (mock messaging system, consistent mock service, scheduler hooks, frame abstraction in harness/internal/gw); task atomicity (DESIGN section 4); modelled not verified: encoding/json, gorilla/websocket",
    },
    "C15": {
        "coq": ["Props/C15.v"],
        "level": "proof",
        "harness": ["gwrun", "purediff"],
        "stages": [("pure", stage_pure, {"suites": ["ressub", "lcs", "throttle", "valuedec", "respdec"], "n_quick": 3000, "n_thorough": 60000}),
                   ("gw", stage_gw, {"profiles": [("malformed", 1500, 10000), ("churn", 600, 4000), ("query", 500, 3000)],
                                     "monitor_props": ("C15", "C01", "C02", "C03", "C07")}),
                   # unrestricted reference graphs and no trigger avoidance: process death and stalls (and the C15 monitor) only;
                   # client divergence there belongs to the recorded collector / pending-request findings and is C01-C03's business
                   ("gwwild", stage_gw, {"profiles": [("wild", 1000, 6000)], "monitor_props": ("C15",)})],
        "rule": "every history runs in its own gateway process: malformed client frames (bad JSON, wrong id/method/params types, ill-formed methods), "
                "malformed or protocol-violating answers to get/access/call/auth requests, malformed and inapplicable resource events (wrong kind, bad "
                "index, improper value, undecodable), malformed system and connection events injected at random points of otherwise valid histories "
                "(plus unrestricted reference graphs with cycles); a process death, a scheduler stall (work pending, nothing runnable) or a divergence of "
                "any client's copy from the untouched service truth is a violation; plus direct-drive op sequences with bad events on one cached resource; "
                "plus the value decoder codec.Value.UnmarshalJSON on generated value texts (objects of 0-4 members over the four field names in any ASCII case, "
                "foreign keys, duplicates, nulls, wrong JSON types, valid / empty / invalid rids, delete / unknown actions, data of every JSON kind, blanks) compared "
                "with the extracted model Pure/ValueDec.v: type, rid, raw text, inner text or the kind of rejection; plus codec.DecodeGetResponse and "
                "codec.DecodeCallResponse on generated payloads (fields present / absent / null in any order, every class of value, model and collection together, "
                "broken and ill-typed payloads) compared with the extracted Pure/RespDec.v",
        "assumptions": ["memory exhaustion and the encoding/json / gorilla layers are outside the model"],
        "technique": "Coq proofs (inapplicable events discarded as a whole; diff indices always in range; throttle never panics; value objects: a reference needs a non-empty valid rid and nothing else, delete needs exactly the delete action, acceptance needs exactly one of rid/action/data and no ill-typed member; get answers: model xor collection, proper values only; call answers: error, then valid resource, then result) + differential correspondence of the real value and response decoders with the extracted models + fault injection into scheduled histories of the real gateway, one process per history, with the Coq monitors checking that bad input has no effect",
        "level_text": "Decision logic for discarding bad input proved on the cache-side model (tied by direct-drive differential); process survival and absence of stalls checked by fault injection on the real code",
        "level_note": "trusted: Coq kernel, extraction, the harness (mock messaging system, consistent mock service, scheduler hooks, frame abstraction in harness/internal/gw); task atomicity (DESIGN section 4); modelled not verified: encoding/json, gorilla/websocket",
    },
    "C16": {
        "coq": ["Props/C16.v"],
        "level": "proof",
        "harness": ["purediff"],
        "stages": [("pure", stage_pure, {"suites": ["render", "httppath"], "n_quick": 6000, "n_thorough": 150000})],
        "rule": "random subscription graphs of 1-5 resources (models, collections, error leaves) with references to any node including "
                "itself and ancestors (cycles of any length), soft references, data values, primitives and keys needing JSON escaping (quotes, backslash, <>, DEL, control characters, an invalid UTF-8 byte), under 3 apiPath "
                "prefixes, run through the real encoders (json and jsonflat) by a verif-tagged export; the body must parse as JSON (RFC 8259 escapes only) without duplicate "
                "members and equal the model's output up to object member order; non-trivial = more than one resource",
        "assumptions": ["encoding/json string escaping of keys and hrefs is taken from the harness's own json.Marshal calls", "HTTP status/headers of POST/HEAD are checked on gateway traces (http profile), not here"],
        "technique": "Coq proof (encoder output = print of the expansion tree, for all graphs; fuel n+1 always suffices, i.e. termination on cyclic graphs) + differential correspondence of both real encoders with the extracted model on random cyclic graphs",
        "level_text": "Unbounded theorems about the Gallina mirrors of both encoders; tied to the code by running the real encoders on synthetic subscription graphs on every check",
        "level_note": "trusted: Coq kernel, extraction, Go harness and its JSON comparison (ocaml/jsonc.ml), the verif-tagged export VerifEncodeGET; modelled not verified: encoding/json, net/http",
    },
    "C18": {
        "coq": ["Props/C18.v"],
        "level": "proof",
        "harness": ["natsrun"],
        "stages": [("nats", stage_nats, {"n_quick": 300, "n_thorough": 3000})],
        "rule": "the real nats.Client over TCP against an in-process fake NATS server (INFO/CONNECT/PING/SUB/UNSUB/PUB/HPUB/MSG/HMSG): "
                "concurrent requests with per-request reply behaviour drawn from {reply, duplicate reply, 503 no responders, silence, "
                "pre-response then reply after the default timeout, pre-response then silence, reply after the timeout, two pre-responses, "
                "reply after the extended timeout, subject beyond the control line}; an event subscription with interleaved publishes and an "
                "Unsubscribe; an over-long namespace; a server disconnect; observed completions per request compared with the model's, "
                "timing margins >= 60 ms; distinct non-trivial = distinct behaviours",
        "assumptions": ["nats.go and TCP are not modelled", "a wrong kind of completion must persist over three runs (machine load); exactly-once and early timeouts are reported at once"],
        "technique": "Coq proof (request life-cycle machine: completion at most once, exactly once when no longer pending, a time-out path alive while pending; all interleavings) + differential of the real adapter against a fake NATS server with the extracted machine",
        "level_text": "The request state machine is proved for every interleaving the client mutex can decide; tied to the code by observing the real adapter over TCP with real timers",
        "level_note": "trusted: Coq kernel, extraction, the fake NATS server and its timing (harness/cmd/natsrun); modelled not verified: nats.go, TCP, Go timers",
    },
    "C20": {
        "coq": ["Props/C20.v"],
        "level": "proof",
        "harness": ["gwrun"],
        "stages": [("gw", stage_gw, {"profiles": [("stop", 120, 1500)]})],
        "rule": "Stop or loss of the messaging connection (closed handler) injected at a random step of histories with idle connections, outstanding "
                "subscribe/call requests, loading references and pending evictions, one gateway process per history; observed: the stop channel "
                "reports the injected cause within 11 s, every client socket is closed by the gateway, a new WebSocket connection is not upgraded, "
                "an HTTP GET gets 503, Start works again and a second Stop completes; expectations computed by the extracted life-cycle model; a "
                "process death or hang is a violation",
        "assumptions": ["net/http server shutdown is not exercised (NoHTTP: the handler is driven directly)", "the mock messaging client makes no callbacks after Close, as the adapter contract requires"],
        "technique": "Coq proof (life-cycle flag machine: connections accepted only while serving, completed Stop leaves none, reports once, restartable) + fault injection of Stop / messaging loss into scheduled histories of the real gateway, compared with the extracted machine",
        "level_text": "Flag machine proved; the shutdown contract is checked by injecting Stop and connection loss at arbitrary steps of explored histories of the real code",
        "level_note": "trusted: Coq kernel, extraction, the harness (mock messaging system, consistent mock service, scheduler hooks, frame abstraction in harness/internal/gw); task atomicity (DESIGN section 4); modelled not verified: encoding/json, gorilla/websocket",
    },
    "C13": {
        "coq": ["Props/C13.v"],
        "level": "proof",
        "harness": ["gwrun", "purediff"],
        "stages": [("pure", stage_pure, {"suites": ["esqueue"], "n_quick": 8000, "n_thorough": 150000}),
                   ("gw", stage_gw, {"profiles": [("query", 1200, 8000)], "monitor_props": ("C13", "C01", "C03", "C07")})],
        "rule": "direct-drive op sequences (enqueue, locking task with 0-3 locks, unlock callbacks within the call contract, worker runs) on one real "
                "EventSubscription compared with the model after every sequence (run log, queue length, lock state, pending wake-ups); histories with "
                "query resources (raw queries q=0..3 normalised by the service to q=K mod 2, aliasing gets in flight together), query events answered with "
                "events / full model / error / timeout in any order, further events during the lock; monitor: exactly one query request per loaded "
                "variant (recorded by introspection right before the query-event task runs), convergence of every alias to its variant's truth, "
                "no stall (work pending with nothing runnable)",
        "assumptions": ["the service normalises queries deterministically and answers query requests relative to the state at the query event (one query event per resource in flight at a time)"],
        "technique": "Coq proof (queue/lock machine: lock blocks the queue, processing always resumes, FIFO; all op sequences) + direct-drive differential of the real EventSubscription + Coq query monitor on scheduled traces of the real gateway",
        "level_text": "Lock machine proved for all operation sequences and tied to the code by direct drive; the one-request-per-variant rule and convergence of aliases are decidable Coq predicates evaluated on explored histories",
        "level_note": "trusted: Coq kernel, extraction, the harness (mock messaging system, consistent mock service, scheduler hooks, frame abstraction in harness/internal/gw); task atomicity (DESIGN section 4); modelled not verified: encoding/json, gorilla/websocket",
    },
}
