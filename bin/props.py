"""Per-property configuration of bin/check: theorem files, harness commands, correspondence stages."""
from vlib import stage_pure

PROPS = {
    "C05": {
        "coq": ["Props/C05.v"],
        "level": "proof",
        "harness": ["purediff"],
        "stages": [("pure", stage_pure, {"suites": ["can_call"], "n_quick": 20000, "n_thorough": 400000})],
        "rule": "structured call lists over a 4-letter alphabet with empty/star entries, action = entry | prefix | suffix | "
                "random | whole list | raw bytes, 10% byte-mutated; non-trivial = list with >= 2 entries; distinct by input",
        "assumptions": ["codec.AccessResult decoding (encoding/json) is not modelled"],
        "technique": "Coq proof (can_call_spec, all strings) + differential correspondence of rescache.Access.CanCall with the extracted model and spec",
        "level_text": "Theorem for all byte strings about the Gallina mirror of the CanCall scanner; the mirror is tied to the code by a differential run on every check",
        "level_note": "trusted: Coq kernel, extraction (ExtrOcamlBasic/ExtrOcamlString), Go harness generators; modelled not verified: encoding/json",
    },
}
